#!/usr/bin/env python3
"""Configurations (parameter list x value types x allocator kind) compiled into worker binaries.

curated(): fixed set used by quick and thorough tiers.
generated(seed, n): additional seeded parameter lists for the thorough tier.
Each configuration is a dict: name, params (C++ type list), traits (sim::Tr*), tags (set of str).
"""
import hashlib

T = {
    'u8': 'std::uint8_t', 'u16': 'std::uint16_t', 'u32': 'std::uint32_t', 'u64': 'std::uint64_t',
    'i32': 'std::int32_t', 'ch': 'char', 'by': 'std::byte', 'f32': 'float', 'f64': 'double',
    'ptr': 'int*', 'sz': 'std::size_t',
    'pod12': 'sim::Pod<12>', 'pod5': 'sim::Pod<5>',
    'trk9': 'sim::Tracked<9>', 'trk12': 'sim::Tracked<12>', 'trk24': 'sim::Tracked<24>',
    'mo9': 'sim::TrackedMO<9>', 'mo12': 'sim::TrackedMO<12>', 'thr9': 'sim::TrackedThrow<9>', 'thr12': 'sim::TrackedThrow<12>',
    'str': 'std::string', 'up': 'std::unique_ptr<int>', 'pr': 'std::pair<std::uint32_t, std::uint32_t>', 'sp12': 'sim::SelfPtr<12>', 'sp13': 'sim::SelfPtr<13>', 'cc12': 'sim::CopyCounted<12>', 'cc5': 'sim::CopyCounted<5>', 'st9': 'sim::Sticky<9>', 'st12': 'sim::Sticky<12>',
}
SIZEOF = {'u8': 1, 'u16': 2, 'u32': 4, 'u64': 8, 'i32': 4, 'ch': 1, 'by': 1, 'f32': 4, 'f64': 8, 'ptr': 8, 'sz': 8,
          'pod12': 12, 'pod5': 5, 'trk9': 9, 'trk12': 12, 'trk24': 24, 'mo9': 9, 'mo12': 12, 'thr9': 9, 'thr12': 12, 'str': 32, 'up': 8, 'pr': 8, 'sp12': 12, 'sp13': 13, 'cc12': 12, 'cc5': 5, 'st9': 9, 'st12': 12}
INTEGRAL = {'u8', 'u16', 'u32', 'u64', 'sz'}
NONTRIVIAL = {'trk9', 'trk12', 'trk24', 'mo9', 'mo12', 'thr9', 'thr12', 'str', 'up', 'sp12', 'sp13', 'cc12', 'cc5', 'st9', 'st12'}
TRACKED = {'trk9', 'trk12', 'trk24', 'mo9', 'mo12', 'thr9', 'thr12'}
MOVEONLY = {'mo9', 'mo12', 'up'}
REAL = {'str', 'up'}

TRAITS = {
    'ae': 'sim::TrAE', 'none': 'sim::TrNone', 'all': 'sim::TrAll', 'noned': 'sim::TrNoneD', 'alld': 'sim::TrAllD',
}


def P(kind, t, align=0):
    """kind: p (plain) / f (FixedSize) / v (VaryingSize)"""
    return (kind, t, align)


def cxx_param(p):
    kind, t, align = p
    s = T[t]
    if align:
        s = 'cntgs::AlignAs<%s, %d>' % (s, align)
    if kind == 'f':
        s = 'cntgs::FixedSize<%s>' % s
    elif kind == 'v':
        s = 'cntgs::VaryingSize<%s>' % s
    return s


def make(name, params, traits, extra_tags=()):
    tags = set(extra_tags)
    kinds = {p[0] for p in params}
    if 'v' in kinds:
        tags.add('varying')
    if 'f' in kinds:
        tags.add('fixed')
    if kinds == {'p'}:
        tags.add('plain')
    if 'v' in kinds and 'f' in kinds:
        tags.add('mixed')
    if any(p[2] for p in params):
        tags.add('alignas')
    ts = {p[1] for p in params}
    if ts & NONTRIVIAL:
        tags.add('nontrivial')
    else:
        tags.add('trivial')
    if ts & TRACKED:
        tags.add('tracked')
    if ts & MOVEONLY:
        tags.add('moveonly')
    if ts & REAL:
        tags.add('real')
    if 'up' not in ts:
        tags.add('comparable')
    if traits != 'ae':
        tags.add('stateful')
    tstr = TRAITS[traits] if traits in TRAITS else traits
    return {'name': name, 'params': ', '.join(cxx_param(p) for p in params), 'traits': tstr, 'tags': sorted(tags),
            'shape': [[p[0], p[1], p[2]] for p in params]}


def curated():
    c = []
    a = c.append
    # all plain
    a(make('pl_u32_f32', [P('p', 'u32'), P('p', 'f32')], 'ae'))
    a(make('pl_al', [P('p', 'ch'), P('p', 'u32', 8)], 'none'))
    a(make('pl_trk', [P('p', 'trk9'), P('p', 'u16'), P('p', 'trk12')], 'none'))
    a(make('pl_bytes', [P('p', 'u8'), P('p', 'u8'), P('p', 'by')], 'ae'))
    a(make('pl_pad', [P('p', 'u8'), P('p', 'u16', 4), P('p', 'u8'), P('p', 'u64', 8)], 'none'))
    # FixedSize only
    a(make('fx_u32_f32', [P('p', 'u32'), P('f', 'f32')], 'none'))
    a(make('fx_two', [P('f', 'u16'), P('p', 'u32'), P('f', 'u8')], 'all'))
    a(make('fx_al32', [P('p', 'u32'), P('f', 'f32', 32)], 'none'))
    a(make('fx_al_mix', [P('f', 'f32', 8), P('p', 'u32', 16), P('f', 'f32')], 'ae'))
    a(make('fx_al_alt', [P('f', 'u8', 32), P('f', 'u32'), P('p', 'u32')], 'noned'))
    a(make('fx_trk', [P('f', 'trk12'), P('p', 'u16'), P('p', 'trk9')], 'all'))
    a(make('fx_mo', [P('f', 'mo12'), P('p', 'mo9')], 'none'))
    a(make('fx_mixtriv', [P('p', 'u32'), P('f', 'trk12'), P('p', 'u8'), P('f', 'u16'), P('p', 'trk9')], 'noned'))
    a(make('fx_bytes', [P('f', 'u8'), P('p', 'u8'), P('f', 'by')], 'none'))
    a(make('fx_pod', [P('f', 'pod12'), P('p', 'u32')], 'ae'))
    a(make('fx_only_u8', [P('f', 'u8')], 'none'))  # elements may have zero bytes (fixed size 0)
    a(make('fx_only_trk', [P('f', 'trk9'), P('f', 'u16')], 'all'))
    a(make('fx_only_u32', [P('f', 'u32')], 'ae'))   # single-parameter lists: element < must be the value type's <
    a(make('pl_only_u16', [P('p', 'u16')], 'none'))
    a(make('fx_only_f32', [P('f', 'f32', 8)], 'none'))
    # single-parameter lists of signed types: element < must be the numeric order (never a byte-wise one)
    a(make('pl_only_ch', [P('p', 'ch')], 'ae'))
    a(make('fx_only_ch', [P('f', 'ch')], 'none'))
    a(make('fx_only_i32', [P('f', 'i32', 4)], 'ae'))
    # FixedSize of element types whose size is not a power of two (12, 5, 9 bytes) between aligned parameters: the
    # alignment known at the end of the span is that of the lowest set bit of sizeof(T)
    a(make('fx_pod_al', [P('p', 'u64', 8), P('f', 'pod12'), P('p', 'f64', 8)], 'none'))
    a(make('fx_pod5_al', [P('f', 'pod5', 4), P('p', 'u32', 4), P('f', 'pod12', 8), P('p', 'u16', 2)], 'ae'))
    a(make('fx_trk_al', [P('f', 'trk12', 8), P('p', 'u32', 8), P('f', 'trk9'), P('p', 'u64', 4)], 'noned'))
    # byte-typed (memcmp-ordered) lists with padding INSIDE the element: an over-aligned parameter that is not the first
    a(make('fx_bytes_al', [P('p', 'u8'), P('f', 'u8', 4)], 'none'))
    a(make('pl_bytes_al', [P('p', 'u8'), P('p', 'u8', 2), P('p', 'by')], 'ae'))
    a(make('fx_ptr', [P('p', 'ptr'), P('f', 'ptr')], 'none'))
    a(make('fx_pad_u8', [P('p', 'u8'), P('f', 'u16', 2), P('p', 'u8', 4)], 'all'))
    # trailing-alignment propagation across a FixedSize, an unaligned plain parameter and an aligned one
    a(make('fx_odd_al', [P('f', 'u16'), P('p', 'u32'), P('p', 'u32', 4)], 'none'))
    a(make('fx_odd_al2', [P('p', 'u8'), P('f', 'u8'), P('p', 'u16'), P('p', 'u16', 2), P('p', 'u8'), P('p', 'u64', 8)], 'ae'))
    a(make('fx_two_al', [P('f', 'u16', 2), P('f', 'u8'), P('p', 'u64'), P('f', 'u32', 4)], 'alld'))
    # VaryingSize only
    a(make('var_u32_f32', [P('p', 'u32'), P('v', 'f32')], 'none'))
    a(make('var_sz8_f32', [P('p', 'u32'), P('p', 'sz', 8), P('v', 'f32')], 'ae'))
    a(make('var_two', [P('p', 'u32'), P('p', 'u16'), P('v', 'u8'), P('p', 'u8'), P('v', 'u16')], 'none'))
    a(make('var_al16', [P('p', 'sz', 8), P('v', 'f32', 16), P('p', 'u32')], 'none'))
    a(make('var_two_al', [P('p', 'u32'), P('p', 'sz', 8), P('v', 'f32', 8), P('p', 'sz', 8), P('v', 'f32', 16)], 'all'))
    a(make('var_trk', [P('p', 'sz', 8), P('v', 'trk12'), P('p', 'trk9')], 'none'))
    a(make('var_mo', [P('p', 'u32'), P('v', 'mo12'), P('p', 'mo9')], 'all'))
    a(make('var_trk_al', [P('p', 'u32'), P('v', 'trk12', 8), P('p', 'trk9'), P('p', 'u8')], 'noned'))
    a(make('var_bytes', [P('p', 'u8'), P('v', 'u8')], 'ae'))
    a(make('var_low_then_al', [P('p', 'u8'), P('v', 'u8'), P('p', 'u32', 4), P('p', 'u16')], 'none'))
    a(make('var_u16_al', [P('p', 'u16'), P('v', 'u16', 8), P('p', 'u8')], 'alld'))
    # trailing parameters after a low-aligned VaryingSize whose total size is a multiple of the element alignment
    # (the padding up to the next element is then 0 only if the span happens to end aligned)
    a(make('var_al_then_low', [P('p', 'u32', 4), P('v', 'u8'), P('p', 'u32')], 'none'))
    a(make('var_al8_then_low', [P('p', 'sz', 8), P('v', 'u16'), P('p', 'u64')], 'ae'))
    a(make('var_two_then_low', [P('p', 'u8'), P('v', 'u8'), P('p', 'u16', 4), P('v', 'f64'), P('p', 'i32'), P('p', 'i32')], 'noned'))
    # a second VaryingSize with AlignAs behind an unaligned count that follows a low-aligned payload: the padding in front
    # of the aligned payload is a run-time residue
    a(make('var_two_low_al', [P('p', 'u32'), P('v', 'u8'), P('p', 'u32'), P('v', 'u16', 4)], 'none'))
    a(make('var_two_low_al8', [P('p', 'u16'), P('v', 'u8'), P('p', 'u16'), P('v', 'f64', 8), P('p', 'u8')], 'alld'))
    a(make('var_two_al8_low', [P('p', 'u64', 8), P('v', 'u8'), P('p', 'u32'), P('v', 'f32')], 'none'))
    a(make('var_two_al4_low', [P('p', 'u32', 4), P('v', 'u8'), P('p', 'u16'), P('v', 'u16'), P('p', 'u8')], 'ae'))
    a(make('var_then_plain_al', [P('p', 'u16'), P('v', 'u16'), P('p', 'u32'), P('p', 'u32', 4), P('p', 'u8')], 'none'))
    # mixed
    a(make('mix_al', [P('f', 'f32', 16), P('p', 'u32'), P('p', 'u8', 8), P('v', 'u16', 8), P('p', 'ch')], 'ae'))
    a(make('mix_trk', [P('f', 'trk12'), P('p', 'u32'), P('v', 'trk9'), P('p', 'u8')], 'noned'))
    a(make('mix_fv', [P('f', 'f32'), P('p', 'u32'), P('p', 'sz', 8), P('v', 'f32')], 'none'))
    a(make('mix_fixal_var', [P('f', 'f32', 16), P('p', 'u32'), P('p', 'sz', 8), P('v', 'f32', 8)], 'alld'))
    a(make('mix_bytes', [P('f', 'u8'), P('p', 'u8'), P('v', 'by'), P('p', 'u8')], 'none'))
    a(make('mix_packed16', [P('f', 'u16'), P('p', 'u16'), P('v', 'u16')], 'ae'))
    a(make('mix_packed_vf', [P('p', 'u8'), P('v', 'u8'), P('f', 'u8'), P('f', 'u16')], 'none'))
    # realistic non-trivial value types (ASan is the lifetime oracle there)
    a(make('str_fx', [P('f', 'str'), P('p', 'str')], 'ae'))
    a(make('str_var', [P('p', 'sz', 8), P('v', 'str'), P('p', 'str')], 'none'))
    a(make('str_mix', [P('p', 'u32'), P('v', 'str'), P('f', 'ch')], 'none'))
    a(make('up_mix', [P('f', 'u8'), P('p', 'u16'), P('v', 'up')], 'ae'))
    a(make('up_fx', [P('f', 'up'), P('p', 'up')], 'ae'))
    a(make('up_var', [P('p', 'sz', 8), P('v', 'up'), P('p', 'up')], 'none'))
    # value types whose copy constructor may throw (fault kind F10, armed only while copies of shared objects are made)
    a(make('thr_fx', [P('f', 'thr12'), P('p', 'u16'), P('p', 'thr9')], 'none'))
    a(make('thr_var', [P('p', 'u32'), P('v', 'thr12'), P('p', 'thr9')], 'all'))
    # no trivially copyable parameter at all: trivially constructible but not trivially copyable (std::pair) next to
    # non-trivial ones
    # trivially destructible but not trivially copy/move constructible (objects know their own address)
    a(make('sp_fx', [P('f', 'sp12'), P('p', 'u16'), P('p', 'sp13')], 'none'))
    a(make('sp_var', [P('p', 'u32'), P('v', 'sp12', 8), P('p', 'sp13')], 'alld'))
    a(make('sp_mix', [P('f', 'sp13'), P('p', 'u8'), P('v', 'sp12'), P('p', 'u32', 4)], 'ae'))
    # trivially move constructible + trivially destructible, but copies must run the (counted) copy constructor
    a(make('cc_fx', [P('p', 'u32'), P('f', 'cc12')], 'none'))
    a(make('cc_var', [P('p', 'u32'), P('v', 'cc12'), P('p', 'cc5')], 'all'))
    a(make('cc_only', [P('f', 'cc5', 4)], 'ae'))
    # trivially constructible/destructible, user-provided assignment that is not a byte copy, no ADL swap
    a(make('st_pl', [P('p', 'u32'), P('p', 'st9'), P('p', 'f32')], 'none'))
    a(make('st_fx', [P('f', 'st12'), P('p', 'u16'), P('p', 'st9')], 'ae'))
    a(make('st_var', [P('p', 'u8'), P('v', 'st9'), P('p', 'st12', 4)], 'noned'))
    a(make('pr_fx_trk', [P('f', 'pr'), P('p', 'trk9')], 'none'))
    a(make('pr_str', [P('p', 'pr'), P('f', 'str')], 'ae'))
    a(make('pr_var_trk', [P('p', 'u32'), P('v', 'pr'), P('p', 'trk12'), P('p', 'pr')], 'noned'))
    a(make('pr_only', [P('f', 'pr', 8), P('p', 'pr')], 'all'))
    # layout family: a packed plain parameter at an odd offset followed by an aligned one (compile-time trailing
    # alignment reasoning); only used by the layout properties C02-C05
    for t2 in ('u16', 'u32', 'u64'):
        for al in (2, 4, 8):
            if al <= SIZEOF[t2]:
                ta = {2: 'u16', 4: 'f32', 8: 'u64'}[al]
                a(make('lay_u8_%s_a%d' % (t2, al), [P('p', 'u8'), P('p', t2), P('p', ta, al)], 'ae', ['layout']))
    a(make('lay_var_tail', [P('p', 'u32', 4), P('v', 'u32', 4), P('p', 'ch'), P('p', 'u32')], 'none', ['layout']))
    a(make('lay_fx_tail', [P('f', 'u8'), P('p', 'u32'), P('p', 'u16', 2), P('f', 'u16'), P('p', 'u64', 8)], 'none', ['layout']))
    # two VaryingSize where the count of the second ends at an offset that is NOT a multiple of the alignment known
    # behind the first payload, and the second payload is aligned above it (byte-sized payloads, so that their trailing
    # padding cannot compensate a short budget); seeded change C02-aligned-varying-leading-padding-unaligned-offset
    a(make('lay_vv_cnt_unal8', [P('p', 'u32'), P('v', 'u32'), P('p', 'u16'), P('v', 'u8', 8)], 'none', ['layout']))
    a(make('lay_vv_cnt_unal4', [P('p', 'u16'), P('v', 'u16'), P('p', 'u8'), P('v', 'by', 4)], 'ae', ['layout']))
    a(make('lay_vv_cnt_unal16', [P('p', 'u32', 4), P('v', 'f32'), P('p', 'u8'), P('v', 'u8', 16), P('p', 'u8')], 'noned', ['layout']))
    a(make('lay_vv_cnt_unal8b', [P('p', 'u16'), P('v', 'u32'), P('p', 'u8'), P('p', 'u16'), P('v', 'by', 8)], 'none', ['layout']))
    a(make('lay_vv_cnt_unal8c', [P('p', 'u64', 8), P('v', 'f64'), P('p', 'u32'), P('v', 'u8', 16)], 'ae', ['layout']))
    a(make('lay_vv_cnt_unal2', [P('p', 'u8'), P('v', 'u16'), P('p', 'u8'), P('v', 'u8', 2), P('p', 'u8')], 'none', ['layout']))
    # the eight propagation-trait combinations x SOCCC same/derived (C08)
    for bits in range(8):
        pocca, pocma, pocs = bits & 1, (bits >> 1) & 1, (bits >> 2) & 1
        for li, params in enumerate(([P('f', 'trk12'), P('p', 'u32')], [P('p', 'u32'), P('v', 'trk12'), P('p', 'u16')])):
            derive = (bits + li) & 1
            tr = 'sim::AllocTraits<%s, %s, %s, false, %s>' % tuple('true' if x else 'false' for x in (pocca, pocma, pocs, derive))
            a(make('a8_%s_%d%d%d%s' % ('fx' if li == 0 else 'var', pocca, pocma, pocs, 'd' if derive else 's'),
                   params, tr, ['a8', 'stateful']))
    return c


def generated(seed, n):
    """Seeded random parameter lists (thorough tier)."""
    out = []
    i = 0
    while len(out) < n:
        h = hashlib.sha256(('%d:%d' % (seed, i)).encode()).digest()
        i += 1
        r = _Rng(h)
        length = 1 + r.below(6)
        params = []
        family = r.below(4)  # 0 trivial ints, 1 trivial mixed, 2 tracked, 3 move-only
        pool = {0: ['u8', 'u16', 'u32', 'u64', 'by', 'ch'], 1: ['u8', 'u32', 'f32', 'f64', 'pod12', 'pod5', 'i32', 'ptr'],
                2: ['trk9', 'trk12', 'trk24', 'u16', 'u8', 'f32', 'pr', 'sp12'], 3: ['mo9', 'mo12', 'u32', 'u8', 'pr']}[family]
        k = 0
        while k < length:
            kind = ['p', 'p', 'f', 'v'][r.below(4)]
            t = pool[r.below(len(pool))]
            align = 0
            if r.below(3) == 0:
                align = [2, 4, 8, 16, 32, 64][r.below(6)]
            if kind == 'v':
                # needs a preceding plain integral count parameter
                ct = ['u8', 'u16', 'u32', 'sz'][r.below(4)]
                calign = 0 if r.below(2) else [2, 4, 8][r.below(3)]
                if calign and calign < SIZEOF[ct] and ct == 'sz':
                    calign = 8
                params.append(P('p', ct, calign))
                k += 1
            params.append(P(kind, t, align))
            k += 1
        traits = ['ae', 'none', 'all', 'noned', 'alld'][r.below(5)]
        name = 'g%03d_%s' % (len(out), hashlib.sha256(repr(params).encode()).hexdigest()[:6])
        out.append(make(name, params, traits, ['generated']))
    return out


def layout_generated(seed, n):
    """Seeded parameter lists biased towards the shapes the compile-time alignment reasoning has to get right: two
    VaryingSize parameters with unaligned counts between them, aligned payloads behind low-aligned ones, trailing plain or
    FixedSize parameters, FixedSize runs of different element sizes. Trivial integral/floating types only; used by the
    layout properties C02-C05 (both tiers)."""
    out = []
    i = 0
    types = ['u8', 'u16', 'u32', 'u64', 'f32', 'f64', 'by', 'pod12', 'pod5']
    counts = ['u8', 'u16', 'u32', 'sz', 'u64']
    aligns = [0, 0, 0, 2, 4, 8, 16]
    while len(out) < n:
        h = hashlib.sha256(('layout:%d:%d' % (seed, i)).encode()).digest()
        i += 1
        r = _Rng(h)

        def any_param(kind):
            return P(kind, types[r.below(len(types))], aligns[r.below(len(aligns))])

        def varying():
            ct = counts[r.below(len(counts))]
            ca = aligns[r.below(len(aligns))]
            if ct in ('sz', 'u64') and ca and ca < 8:
                ca = 8
            return [P('p', ct, ca), any_param('v')]

        family = max(0, r.below(6) - 2)   # two-VaryingSize lists (family 0) are half of the population: most of the layout
        # defects the seeded changes exposed needed that shape with one particular alignment relation
        params = []
        if family == 0:      # two VaryingSize, optional plain parameters between and behind
            params += varying()
            if r.below(2):
                params.append(any_param('p'))
            params += varying()
            for _ in range(r.below(3)):
                params.append(any_param('p'))
        elif family == 1:    # FixedSize runs of different element sizes
            for _ in range(2 + r.below(3)):
                params.append(any_param('f' if r.below(3) else 'p'))
        elif family == 2:    # mixed: FixedSize in front of and behind a VaryingSize
            params.append(any_param('f'))
            if r.below(2):
                params.append(any_param('p'))
            params += varying()
            params.append(any_param('f' if r.below(2) else 'p'))
            if r.below(2):
                params.append(any_param('p'))
        else:                # one VaryingSize with a tail of plain parameters
            if r.below(2):
                params.append(any_param('p'))
            params += varying()
            for _ in range(1 + r.below(3)):
                params.append(any_param('p'))
        if not any(p[2] for p in params):
            params[-1] = P(params[-1][0], params[-1][1], [2, 4, 8, 16][r.below(4)])
        traits = ['ae', 'none', 'noned'][r.below(3)]
        name = 'ly%03d_%s' % (len(out), hashlib.sha256(repr(params).encode()).hexdigest()[:6])
        out.append(make(name, params, traits, ['layout', 'generated']))
    return out


class _Rng:
    def __init__(self, digest):
        self.s = int.from_bytes(digest[:8], 'little') | 1

    def below(self, n):
        self.s = (self.s * 6364136223846793005 + 1442695040888963407) & ((1 << 64) - 1)
        return (self.s >> 33) % n


def header_text(cfg):
    return ('#pragma once\n#include <cstdint>\n#include <cstddef>\n#include <memory>\n#include <string>\n'
            '#include <cntgs/contiguous.hpp>\n#include "sim/alloc.hpp"\n#include "sim/values.hpp"\n'
            '#define CFG_NAME "%s"\n#define CFG_PARAMS %s\n#define CFG_TRAITS %s\n' % (cfg['name'], cfg['params'], cfg['traits']))


if __name__ == '__main__':
    import sys
    cs = curated() + (generated(int(sys.argv[1]), int(sys.argv[2])) + layout_generated(int(sys.argv[1]), 24) if len(sys.argv) > 2 else [])
    for c in cs:
        print(c['name'], '|', c['params'], '|', c['traits'], '|', ' '.join(c['tags']))
