// Worker: one configuration (parameter list x allocator kind) per binary.
//   worker run  --prop C01 --seed S --from I --count N [--thorough] [--avoid k,k] [--cases FILE] [--hashes]
//   worker plan --prop C01 --seed S --run I [--thorough]
//   worker exec --prop C01 --plan FILE --env E [--env2 E2] [--avoid k,k]
#include CFG_HEADER

#include "harness.hpp"
#include "plan.hpp"

#include <csignal>
#include <cstdio>
#include <cstdlib>
#include <cstring>
#include <exception>
#include <string>
#include <vector>

// ---------------------------------------------------------------------------------------------
// nothing else may allocate on the library's behalf: count global operator new inside library calls
// ---------------------------------------------------------------------------------------------
#ifndef SIM_TSAN  // the TSan runtime brings its own operator new/delete (the global-new oracle is not part of C19)
void* operator new(std::size_t n)
{
    if (sim::g_in_lib) ++sim::g_new_in_lib;
    void* p = std::malloc(n ? n : 1);
    if (!p) std::abort();
    return p;
}
void* operator new[](std::size_t n) { return ::operator new(n); }
void operator delete(void* p) noexcept { std::free(p); }
void operator delete[](void* p) noexcept { std::free(p); }
void operator delete(void* p, std::size_t) noexcept { std::free(p); }
void operator delete[](void* p, std::size_t) noexcept { std::free(p); }
#endif

#ifdef SIM_TSAN
extern "C" __attribute__((used)) const char* __tsan_default_options()
{
    return "halt_on_error=1:exitcode=78:report_signal_unsafe=0:second_deadlock_stack=0:ignore_interceptors_accesses=0";
}
#endif

#ifdef SIM_TSAN
// Harness memory (models, logs) is allocated by one task and released by another under the hidden hand-off; the
// library under test never calls operator delete / free itself (it only talks to the SimHeap allocator).
extern "C" __attribute__((used)) const char* __tsan_default_suppressions()
{
    return "race:^operator delete\nrace:^operator new\nrace:^free$\nrace:^malloc$\nrace:^realloc$\n";
}
#endif

#ifdef SIM_ASAN
extern "C" __attribute__((used)) const char* __asan_default_options()
{
    return "exitcode=77:detect_leaks=0:handle_segv=0:handle_sigbus=0:handle_abort=0:allocator_may_return_null=1:"
           "detect_stack_use_after_return=0:print_summary=0";
}
#endif

namespace
{
using H = sim::Harness<CFG_TRAITS, CFG_PARAMS>;
volatile int g_cur_failk = 0;

void crash_line(const char* cls, const void* addr)
{
    char detail[256];
    detail[0] = 0;
    if (addr) sim::g_heap.classify(addr, detail, sizeof(detail));
    // an access right next to a live block uses memory that was not obtained from the allocator (C07)
    const bool oob = std::strstr(detail, "state=live") && !std::strstr(detail, "side=inside");
    char dom[128];
    sim::mask_to_str(sim::g_cur_domain | sim::pm(sim::C02) | (oob ? sim::pm(sim::C07) : 0u) |
                         ((sim::g_heap.fault_fired || (sim::g_run && sim::g_run->fault_seen)) ? sim::pm(sim::C17) : 0u),
                     dom);
    char buf[700];
    const int op = sim::g_cur_op;
    const int n = std::snprintf(buf, sizeof(buf), "\nCRASH run=%ld step=%d op=%s props=%s class=%s failk=%d %s\n",
                                sim::g_cur_run, sim::g_cur_step,
                                (op >= 0 && op < sim::OP_COUNT) ? sim::OP_NAMES[op] : "teardown", dom, cls, g_cur_failk,
                                detail);
    if (n > 0) (void)!::write(1, buf, static_cast<std::size_t>(n));
}

void on_segv(int sig, siginfo_t* si, void*)
{
    const auto* a = static_cast<const unsigned char*>(si->si_addr);
    const bool obj = sim::g_read_phase && sim::g_obj_pages && a >= sim::g_obj_pages && a < sim::g_obj_pages + sim::PAGE;
    if (sim::g_read_phase && (obj || sim::in_shared_block(si->si_addr)))
    {
        // C19: a const operation (or an operation on a private copy) wrote to write-protected shared state
        // (reads of these pages are permitted, so the fault is a write; faults on guard pages fall through)
        char detail[200];
        detail[0] = 0;
        if (!obj) sim::g_heap.classify(si->si_addr, detail, sizeof(detail));
        char buf[500];
        const int n = std::snprintf(buf, sizeof(buf), "\nCRASH run=%ld step=%d op=c19_%d props=C19,C02 class=write-to-shared-state %s\n",
                                    sim::g_cur_run, sim::g_cur_step, sim::g_cur_op - sim::OP_COUNT,
                                    obj ? "kind=container-object state=live side=inside" : detail);
        if (n > 0) (void)!::write(1, buf, static_cast<std::size_t>(n));
        ::_exit(13);
    }
    crash_line(sig == SIGBUS ? "sigbus" : "segv", si->si_addr);
    ::_exit(13);
}

void on_abort(int)
{
    crash_line("abort", nullptr);
    ::_exit(14);
}

// per-run watchdog: a run normally takes milliseconds; a library that loops or allocates without end (e.g. over a
// garbage element count) is reported as a violation of the operation it hangs in instead of stalling the check
void on_alarm(int)
{
    crash_line("hang", nullptr);
    ::_exit(16);
}

void on_terminate()
{
    crash_line("terminate", nullptr);
    ::_exit(15);
}

#ifdef SIM_ASAN
void on_asan_report(const char* report)
{
    const char* kind = "asan";
    if (std::strstr(report, "use-after-poison")) kind = "asan-poison";
    else if (std::strstr(report, "heap-use-after-free")) kind = "asan-uaf";
    else if (std::strstr(report, "heap-buffer-overflow")) kind = "asan-overflow";
    crash_line(kind, __asan_get_report_address());
}
#endif

void install_handlers()
{
    static char altstack[1 << 16];
    stack_t ss{};
    ss.ss_sp = altstack;
    ss.ss_size = sizeof(altstack);
    sigaltstack(&ss, nullptr);
    struct sigaction sa{};
    sa.sa_sigaction = on_segv;
    sa.sa_flags = SA_SIGINFO | SA_ONSTACK;
    sigaction(SIGSEGV, &sa, nullptr);
    sigaction(SIGBUS, &sa, nullptr);
    std::signal(SIGABRT, on_abort);
    std::signal(SIGALRM, on_alarm);
    std::set_terminate(on_terminate);
#ifdef SIM_ASAN
    __asan_set_error_report_callback(on_asan_report);
#endif
}

std::uint64_t c19_seed = 0;
bool c19_thorough = false;
int c19_maxsteps = 1 << 30;

struct Outcome
{
    int last_allocs = 0;      // allocation requests seen by the last executed step
    bool last_executed = false;
    int failk = 0;
    int status = 0;  // 0 ok, 1 focus violation, 2 blocked, 3 capped
    sim::Violation v;
    std::uint64_t hash = 0;
    int steps = 0;
    std::vector<unsigned char> transcript;
};

Outcome execute(const std::vector<sim::Op>& plan, int prop, std::uint64_t env_seed, sim::Counters& ctr,
                std::vector<std::uint64_t>* cases, const std::vector<std::string>& avoid,
                const std::vector<std::string>& known = {}, std::vector<std::uint64_t>* known_hits = nullptr)
{
    Outcome out;
    sim::RunCtx rc;
    rc.focus = prop;
    rc.ctr = &ctr;
    rc.nontrivial = cases;
    rc.avoid = avoid;
    rc.known = known;
    sim::g_run = &rc;
    {
        static const unsigned secs = [] {
            const char* e = std::getenv("VERIF_RUN_ALARM");
            const int v = e ? std::atoi(e) : 0;
            return static_cast<unsigned>(v > 0 ? v : 20);
        }();
        ::alarm(secs);
    }
    sim::g_ledger.reset();
    // every run starts from the same value-type state: a run is a pure function of its seed
    sim::g_pod_counter = 0;
    sim::g_sticky_counter = 0;
    sim::g_float_zero_counter = 0;
    sim::g_value_throw_countdown = 0;
    sim::g_heap.begin_run(env_seed, true);
    sim::g_heap.log = &rc.log;
    H* h = new H(rc);
    h->cmp_transcript = &out.transcript;
    if (prop == sim::C19)
    {
        // the "plan" of a C19 run is its seed: set-up, task programs and schedule derive from it
        h->run_c19(c19_seed, c19_thorough, c19_maxsteps);
    }
    else
    {
        for (auto& op : plan)
        {
            const auto skipped_before = ctr.skipped_ops;
            const bool go = h->step(op);
            out.last_allocs = sim::g_heap.op_allocs;
            out.last_executed = ctr.skipped_ops == skipped_before;
            if (!go) break;
        }
    }
    if (!rc.stop) h->teardown();
    out.steps = rc.step;
    ::alarm(0);
    out.hash = rc.log.h;
    if (rc.capped) out.status = 3;
    else if (rc.focus_viol.set)
    {
        out.status = 1;
        out.v = rc.focus_viol;
    }
    else if (rc.block.set)
    {
        out.status = 2;
        out.v = rc.block;
    }
    if (known_hits)
    {
        known_hits->resize(known.size());
        for (std::size_t i = 0; i < rc.known_hits.size(); ++i) (*known_hits)[i] += rc.known_hits[i];
    }
    if (!rc.stop) delete h;  // otherwise the world is abandoned: its state is not trustworthy
    sim::g_run = nullptr;
    sim::g_heap.log = nullptr;
    sim::g_heap.end_run();
    sim::g_ledger.reset();
    if (sim::g_obj_pages)
    {
        ::munmap(sim::g_obj_pages, 2 * sim::PAGE);
        sim::g_obj_pages = nullptr;
    }
    return out;
}

void print_outcome(long run, const Outcome& o, bool always)
{
    if (o.status == 0 && !always) return;
    char props[128];
    sim::mask_to_str(o.v.props, props);
    static const char* const ST[] = {"ok", "viol", "blocked", "capped"};
    if (o.status == 1 || o.status == 2)
    {
        std::printf("R %ld %s props=%s class=%s step=%d op=%s hash=%016llx failk=%d key=%s\n", run, ST[o.status], props,
                    o.v.cls.c_str(), o.v.step,
                    (o.v.op >= 0 && o.v.op < sim::OP_COUNT) ? sim::OP_NAMES[o.v.op] : "teardown",
                    static_cast<unsigned long long>(o.hash), o.failk, o.v.key.c_str());
    }
    else
    {
        std::printf("R %ld %s steps=%d hash=%016llx\n", run, ST[o.status], o.steps,
                    static_cast<unsigned long long>(o.hash));
    }
    std::fflush(stdout);
}

std::vector<std::string> split(const char* s)
{
    std::vector<std::string> out;
    std::string cur;
    for (; *s; ++s)
    {
        if (*s == ',')
        {
            if (!cur.empty()) out.push_back(cur);
            cur.clear();
        }
        else cur += *s;
    }
    if (!cur.empty()) out.push_back(cur);
    return out;
}

std::uint64_t run_seed_of(std::uint64_t seed, int prop, long index)
{
    return sim::derive(sim::derive(sim::derive(seed, CFG_NAME), static_cast<std::uint64_t>(prop)),
                       static_cast<std::uint64_t>(index));
}

// ---- C17 fault enumeration: prefix (no faults) + one allocating subject op + fixed epilogue ------------------
bool c17_enumerated_run(int prop, long index) { return prop == sim::C17 && (index % 2) == 0; }

std::vector<sim::Op> c17_prefix(std::uint64_t rs, bool thorough)
{
    auto plan = sim::generate_plan(sim::C17, rs, thorough, false);
    if (plan.size() > 24) plan.resize(24);
    return plan;
}

sim::Op c17_subject(std::uint64_t rs)
{
    sim::Rng r(sim::derive(rs, "c17-subject"));
    static const int KINDS[] = {sim::OP_CONSTRUCT,     sim::OP_RESERVE,      sim::OP_RESERVE,       sim::OP_COPY_CONSTRUCT,
                                sim::OP_COPY_ASSIGN,   sim::OP_COPY_ASSIGN,  sim::OP_MOVE_ASSIGN,   sim::OP_MOVE_ASSIGN,
                                sim::OP_ELEM_CONSTRUCT, sim::OP_ELEM_COPY,   sim::OP_ELEM_ASSIGN,   sim::OP_ELEM_ASSIGN};
    sim::Op op;
    op.kind = KINDS[r.below(sizeof(KINDS) / sizeof(KINDS[0]))];
    for (int& a : op.a) a = static_cast<int>(r.below(1000));
    if (op.kind == sim::OP_RESERVE) op.a[1] = 2 + static_cast<int>(r.below(3));  // growing
    if (op.kind == sim::OP_CONSTRUCT) op.a[1] = static_cast<int>(r.below(9));
    return op;
}

std::vector<sim::Op> c17_epilogue(const sim::Op& subject, std::uint64_t rs)
{
    sim::Rng r(sim::derive(rs, "c17-epilogue"));
    std::vector<sim::Op> e;
    auto mk = [&](int kind, int a0, int a1)
    {
        sim::Op op;
        op.kind = kind;
        for (int& a : op.a) a = static_cast<int>(r.below(1000));
        op.a[0] = a0;
        op.a[1] = a1;
        e.push_back(op);
    };
    // the operands must still be assignable, clearable and destructible
    mk(sim::OP_CONSTRUCT, subject.a[0] + 1, 3);
    mk(sim::OP_EMPLACE_BACK, subject.a[0] + 1, 0);
    mk(sim::OP_EMPLACE_BACK, subject.a[0] + 1, 0);
    mk(sim::OP_COPY_ASSIGN, subject.a[0], subject.a[0] + 1);
    mk(sim::OP_MOVE_ASSIGN, subject.a[1], subject.a[0] + 1);
    mk(sim::OP_CLEAR, subject.a[0], 0);
    mk(sim::OP_ELEM_ASSIGN, subject.a[0], subject.a[1]);
    mk(sim::OP_ELEM_DESTROY, subject.a[0], 0);
    return e;
}

std::vector<sim::Op> c17_plan(std::uint64_t rs, bool thorough, int failk)
{
    auto plan = c17_prefix(rs, thorough);
    sim::Op subj = c17_subject(rs);
    subj.fail = failk;
    plan.push_back(subj);
    if (failk > 0)
    {
        for (auto& op : c17_epilogue(subj, rs)) plan.push_back(op);
    }
    return plan;
}

bool differential(int prop) { return prop == sim::C13 || prop == sim::C14 || prop == sim::C18; }
bool fault_population(int prop, long index) { return prop == sim::C17 || (index % 4) == 3; }
}  // namespace

int main(int argc, char** argv)
{
    if (argc < 2)
    {
        std::fprintf(stderr, "usage: worker run|plan|exec ...\n");
        return 2;
    }
    const std::string mode = argv[1];
    int prop = sim::C01;
    std::uint64_t seed = 1, env = 1, env2 = 0;
    long from = 0, count = 1, run = 0;
    int failk = 0;
    bool thorough = false, hashes = false;
    const char* plan_path = nullptr;
    const char* cases_path = nullptr;
    std::vector<std::string> avoid, known;
    std::vector<std::uint64_t> known_hits;
    for (int i = 2; i < argc; ++i)
    {
        const std::string a = argv[i];
        auto next = [&]() -> const char* { return i + 1 < argc ? argv[++i] : ""; };
        if (a == "--prop") prop = sim::prop_from_str(next());
        else if (a == "--seed") seed = std::strtoull(next(), nullptr, 10);
        else if (a == "--from") from = std::strtol(next(), nullptr, 10);
        else if (a == "--count") count = std::strtol(next(), nullptr, 10);
        else if (a == "--run") run = std::strtol(next(), nullptr, 10);
        else if (a == "--failk") failk = static_cast<int>(std::strtol(next(), nullptr, 10));
        else if (a == "--env") env = std::strtoull(next(), nullptr, 10);
        else if (a == "--env2") env2 = std::strtoull(next(), nullptr, 10);
        else if (a == "--thorough") thorough = true;
        else if (a == "--hashes") hashes = true;
        else if (a == "--plan") plan_path = next();
        else if (a == "--cases") cases_path = next();
        else if (a == "--avoid") avoid = split(next());
        else if (a == "--known") known = split(next());
        else if (a == "--novg") {}
        else if (a == "--vg")
        {
            sim::g_heap.protect_pages = false;
            sim::g_heap.fill_junk = false;
        }
    }
    install_handlers();
    std::setvbuf(stdout, nullptr, _IOLBF, 0);
    sim::Counters ctr;
    if (mode == "info")
    {
        std::printf("{\"name\":\"%s\",\"params\":%zu,\"has_varying\":%d,\"trivial\":%d,\"tracked\":%d,\"move_only\":%d,"
                    "\"stateful\":%d,\"max_align\":%zu,\"comparable\":%d,\"pocca\":%d,\"pocma\":%d,\"pocs\":%d,"
                    "\"soccc_derive\":%d,\"all_plain\":%d,\"all_fixed\":%d,\"mixed\":%d}\n",
                    CFG_NAME, H::N, H::HAS_VARYING, H::TRIVIAL, H::ANY_TRACKED, H::MOVE_ONLY, H::STATEFUL,
                    H::MAX_ALIGN, H::COMPARABLE, CFG_TRAITS::POCCA, CFG_TRAITS::POCMA, CFG_TRAITS::POCS,
                    CFG_TRAITS::SOCCC_DERIVE, H::ALL_PLAIN, H::ALL_FIXED, H::MIXED);
        return 0;
    }
    if (mode == "plan")
    {
        const auto rs = run_seed_of(seed, prop, run);
        const auto plan = c17_enumerated_run(prop, run)
                              ? c17_plan(rs, thorough, failk)
                              : sim::generate_plan(prop, rs, thorough, fault_population(prop, run));
        std::printf("# cfg=%s prop=C%02d seed=%llu run=%ld env=%llu env2=%llu\n", CFG_NAME, prop,
                    static_cast<unsigned long long>(seed), run, static_cast<unsigned long long>(sim::derive(rs, "env")),
                    static_cast<unsigned long long>(sim::derive(rs, "env-alt")));
        if (prop == sim::C19)
        {
            std::printf("#c19 rs=%llu maxsteps=1000000 thorough=%d\n", static_cast<unsigned long long>(rs), thorough ? 1 : 0);
            return 0;
        }
        std::fputs(sim::plan_to_text(plan).c_str(), stdout);
        return 0;
    }
    if (mode == "exec")
    {
        std::vector<sim::Op> plan;
        if (!plan_path || !sim::plan_from_file(plan_path, plan))
        {
            std::fprintf(stderr, "cannot read plan\n");
            return 2;
        }
        sim::g_cur_run = -1;
        if (prop == sim::C19)
        {
            if (std::FILE* f = std::fopen(plan_path, "r"))
            {
                char line[256];
                while (std::fgets(line, sizeof(line), f))
                {
                    unsigned long long rs = 0;
                    int ms = 0, th = 0;
                    if (std::sscanf(line, "#c19 rs=%llu maxsteps=%d thorough=%d", &rs, &ms, &th) == 3)
                    {
                        c19_seed = rs;
                        c19_maxsteps = ms;
                        c19_thorough = th != 0;
                    }
                }
                std::fclose(f);
            }
        }
        Outcome o = execute(plan, prop, env, ctr, nullptr, avoid, known);
        if (o.status == 0 && env2 != 0)
        {
            Outcome o2 = execute(plan, prop, env2, ctr, nullptr, avoid, known);
            if (o2.status != 0) o = o2;
            else if (o.transcript != o2.transcript)
            {
                o.status = 1;
                o.v = sim::Violation{true, sim::pm(prop), "env-dependent",
                                     "comparison/observer results differ between two environments (junk, placement)", -1, -1};
            }
        }
        print_outcome(-1, o, true);
        return 0;
    }
    if (mode == "run")
    {
        std::vector<std::uint64_t> cases;
        std::uint64_t ok = 0, viol = 0, blocked = 0, capped = 0, c17_subjects = 0, c17_points = 0;
        for (long idx = from; idx < from + count; ++idx)
        {
            sim::g_cur_run = idx;
#if defined(SIM_ASAN) || defined(SIM_TSAN)
            std::printf("S %ld\n", idx);  // a sanitizer runtime that exits without our crash line still names the run
#endif
            const auto rs = run_seed_of(seed, prop, idx);
            c19_seed = rs;
            c19_thorough = thorough;
            const auto plan = prop == sim::C19 ? std::vector<sim::Op>{} : sim::generate_plan(prop, rs, thorough, fault_population(prop, idx));
            const auto e1 = sim::derive(rs, "env");
            Outcome o;
            if (c17_enumerated_run(prop, idx))
            {
                // dry run: how many allocations does the subject operation perform in this state?
                o = execute(c17_plan(rs, thorough, 0), prop, e1, ctr, nullptr, avoid, known, &known_hits);
                const int m = (o.status == 0 && o.last_executed) ? o.last_allocs : 0;
                if (o.status == 0 && m > 0) ++c17_subjects;
                for (int k = 1; k <= m && o.status == 0; ++k)
                {
                    g_cur_failk = k;
                    o = execute(c17_plan(rs, thorough, k), prop, e1, ctr, &cases, avoid, known, &known_hits);
                    o.failk = k;
                    ++c17_points;
                }
                g_cur_failk = 0;
            }
            else
            {
                o = execute(plan, prop, e1, ctr, &cases, avoid, known, &known_hits);
            }
            if (o.status == 0 && differential(prop))
            {
                const auto e2 = sim::derive(rs, "env-alt");
                Outcome o2 = execute(plan, prop, e2, ctr, nullptr, avoid, known);
                if (o2.status != 0) o = o2;
                else if (o.transcript != o2.transcript)
                {
                    o.status = 1;
                    o.v = sim::Violation{true, sim::pm(prop), "env-dependent",
                                         "comparison/observer results differ between two environments (junk, placement)", -1, -1};
                }
            }
            ++ctr.runs;
            switch (o.status)
            {
                case 0: ++ok; break;
                case 1: ++viol; break;
                case 2:
                    ++blocked;
                    ++ctr.blocked_runs;
                    break;
                default:
                    ++capped;
                    ++ctr.capped_runs;
            }
            print_outcome(idx, o, hashes);
            if (cases.size() > (1u << 20))
            {
                std::sort(cases.begin(), cases.end());
                cases.erase(std::unique(cases.begin(), cases.end()), cases.end());
            }
        }
        std::sort(cases.begin(), cases.end());
        cases.erase(std::unique(cases.begin(), cases.end()), cases.end());
        if (cases_path)
        {
            if (std::FILE* f = std::fopen(cases_path, "wb"))
            {
                std::fwrite(cases.data(), sizeof(std::uint64_t), cases.size(), f);
                std::fclose(f);
            }
        }
        std::printf("STATS {\"cfg\":\"%s\",\"runs\":%llu,\"ok\":%llu,\"viol\":%llu,\"blocked\":%llu,\"capped\":%llu,"
                    "\"steps\":%llu,\"skipped_ops\":%llu,\"avoided_by_known_finding\":%llu,\"oracle_evals\":%llu,"
                    "\"distinct_cases\":%zu,\"allocs\":%llu,\"frees\":%llu,\"faults_fired\":%llu,\"min_align_bases\":%llu",
                    CFG_NAME, (unsigned long long)ctr.runs, (unsigned long long)ok, (unsigned long long)viol,
                    (unsigned long long)blocked, (unsigned long long)capped, (unsigned long long)ctr.steps,
                    (unsigned long long)ctr.skipped_ops, (unsigned long long)ctr.avoided_kf,
                    (unsigned long long)ctr.oracle_evals, cases.size(), (unsigned long long)sim::g_heap.n_alloc,
                    (unsigned long long)sim::g_heap.n_free, (unsigned long long)sim::g_heap.n_fault,
                    (unsigned long long)sim::g_heap.n_min_align);
        std::printf(",\"c17_subject_ops_enumerated\":%llu,\"c17_failure_points\":%llu", (unsigned long long)c17_subjects,
                    (unsigned long long)c17_points);
        std::printf(",\"value_throws\":%llu,\"abandoned_objects\":%llu,\"abandoned_blocks\":%llu",
                    (unsigned long long)ctr.value_throws, (unsigned long long)ctr.abandoned_objects,
                    (unsigned long long)ctr.abandoned_blocks);
        std::printf(",\"placements\":{");
        for (int i = 0; i < sim::PL_COUNT; ++i)
            std::printf("%s\"%s\":%llu", i ? "," : "", sim::PLACEMENT_NAMES[i], (unsigned long long)sim::g_heap.n_place[i]);
        std::printf("},\"ops\":{");
        for (int i = 0; i < sim::OP_COUNT; ++i)
            std::printf("%s\"%s\":%llu", i ? "," : "", sim::OP_NAMES[i], (unsigned long long)ctr.ops[i]);
        std::printf("},\"probes\":{");
        for (int i = 0; i < sim::PB_COUNT; ++i)
            std::printf("%s\"%s\":%llu", i ? "," : "", sim::PROBE_NAMES[i], (unsigned long long)ctr.probes[i]);
        std::printf("},\"known_hits\":{");
        for (std::size_t i = 0; i < known.size(); ++i)
            std::printf("%s\"%s\":%llu", i ? "," : "", known[i].c_str(),
                        (unsigned long long)(i < known_hits.size() ? known_hits[i] : 0));
        std::printf("}}\n");
        return 0;
    }
    std::fprintf(stderr, "unknown mode\n");
    return 2;
}
