#!/bin/bash
# runs every claimed check (quick) against every seeded change; writes seeded/<id>/matrix.txt
cd "$(dirname "$0")/.."
for d in seeded/*/; do
  id=$(basename $d)
  [ -f $d/patch.diff ] || continue
  [ -n "$ONLY" ] && [[ "$id" != $ONLY ]] && continue
  python3 tools/try_mutant.py $d/patch.diff > $d/matrix.txt 2>&1
  echo "$id: $(tail -1 $d/matrix.txt)"
done
