#pragma once
#include <cstdint>
#include <string>
#include <memory>
#include <cntgs/contiguous.hpp>
#include "../sim/alloc.hpp"
#include "../sim/values.hpp"
#define CFG_NAME "t_var_trk"
#define CFG_PARAMS cntgs::AlignAs<std::size_t, 8>, cntgs::VaryingSize<sim::Tracked<12>>, sim::Tracked<9>
#define CFG_TRAITS sim::TrNone
