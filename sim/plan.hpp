// Plan generation: swarm-style, profile per focused property. Ops carry raw integers only; all
// resolution happens at execution time, so every sub-sequence of a plan is itself a valid plan.
#pragma once
#include "core.hpp"

#include <cstdio>
#include <string>
#include <vector>

namespace sim
{
struct Profile
{
    int w[OP_COUNT] = {};
    int fail_pct = 0;      // share of allocating ops that get an F1 attachment (fault population only)
    int small_domain = 0;  // >0: values drawn from [0, small_domain) so that ties occur
    int min_len = 6, max_len = 40;
};

inline bool op_allocates(int k)
{
    return k == OP_CONSTRUCT || k == OP_RESERVE || k == OP_COPY_CONSTRUCT || k == OP_COPY_ASSIGN ||
           k == OP_MOVE_ASSIGN || k == OP_ELEM_CONSTRUCT || k == OP_ELEM_COPY || k == OP_ELEM_ASSIGN;
}

inline Profile base_profile(int prop, bool thorough)
{
    Profile p;
    auto set = [&](std::initializer_list<std::pair<int, int>> l)
    {
        for (auto& kv : l) p.w[kv.first] = kv.second;
    };
    // common substrate: enough construction and filling that the subject ops find non-trivial states
    set({{OP_CONSTRUCT, 10}, {OP_EMPLACE_BACK, 24}, {OP_FILL, 4}, {OP_DESTROY, 2}});
    switch (prop)
    {
        case C01:
        case C04:
        case C05:
        case C03:
            set({{OP_DEFAULT_CONSTRUCT, 1}, {OP_POP_BACK, 6}, {OP_ERASE, 12}, {OP_ERASE_RANGE, 8}, {OP_CLEAR, 3},
                 {OP_RESERVE, 10}, {OP_ITER, 2}, {OP_COPY_CONSTRUCT, 2}, {OP_MOVE_CONSTRUCT, 1}, {OP_COPY_ASSIGN, 2},
                 {OP_MOVE_ASSIGN, 2}, {OP_SWAP, 1}, {OP_ELEM_CONSTRUCT, 2}, {OP_ELEM_COPY, 1}, {OP_ELEM_ASSIGN, 1},
                 {OP_ELEM_DESTROY, 1}, {OP_ELEM_SWAP, 1}});
            break;
        case C02:
        case C10:
            set({{OP_FILL, 14}, {OP_POP_BACK, 4}, {OP_ERASE, 6}, {OP_ERASE_RANGE, 4}, {OP_CLEAR, 3}, {OP_RESERVE, 18},
                 {OP_DEFAULT_CONSTRUCT, 1}, {OP_COPY_CONSTRUCT, 1}, {OP_MOVE_ASSIGN, 1}});
            break;
        case C06:
        case C07:
        case C16:
            set({{OP_DEFAULT_CONSTRUCT, 1}, {OP_POP_BACK, 5}, {OP_ERASE, 10}, {OP_ERASE_RANGE, 6}, {OP_CLEAR, 3},
                 {OP_RESERVE, 8}, {OP_COPY_CONSTRUCT, 4}, {OP_MOVE_CONSTRUCT, 3}, {OP_COPY_ASSIGN, 6},
                 {OP_MOVE_ASSIGN, 6}, {OP_SWAP, 3}, {OP_ELEM_CONSTRUCT, 5}, {OP_ELEM_COPY, 3}, {OP_ELEM_ASSIGN, 4},
                 {OP_ELEM_SWAP, 1}, {OP_ELEM_DESTROY, 2}, {OP_REF_ASSIGN, 4}, {OP_REF_SWAP, 1}, {OP_ELEM_TO_REF, 1},
                 {OP_REF_TO_ELEM, 1}, {OP_DESTROY, 4}});
            break;
        case C08:
        case C09:
            set({{OP_DEFAULT_CONSTRUCT, 2}, {OP_POP_BACK, 3}, {OP_ERASE, 3}, {OP_CLEAR, 4}, {OP_RESERVE, 4},
                 {OP_COPY_CONSTRUCT, 8}, {OP_MOVE_CONSTRUCT, 6}, {OP_COPY_ASSIGN, 12}, {OP_MOVE_ASSIGN, 12},
                 {OP_SWAP, 8}, {OP_WRITE, 4}, {OP_ELEM_CONSTRUCT, 3}, {OP_ELEM_COPY, 3}, {OP_ELEM_ASSIGN, 3},
                 {OP_ELEM_SWAP, 1}, {OP_ELEM_DESTROY, 1}, {OP_DESTROY, 4}});
            break;
        case C11:
            set({{OP_WRITE, 14}, {OP_REF_ASSIGN, 12}, {OP_REF_SWAP, 8}, {OP_ALGO, 10}, {OP_ITER, 10}, {OP_POP_BACK, 2},
                 {OP_ERASE, 2}, {OP_RESERVE, 3}, {OP_ELEM_CONSTRUCT, 2}, {OP_ELEM_TO_REF, 3}, {OP_COPY_CONSTRUCT, 1},
                 {OP_COPY_ASSIGN, 3}, {OP_MOVE_ASSIGN, 2}, {OP_SWAP, 2}, {OP_MOVE_CONSTRUCT, 2}});
            break;
        case C12:
            set({{OP_ELEM_CONSTRUCT, 14}, {OP_ELEM_COPY, 8}, {OP_ELEM_ASSIGN, 12}, {OP_ELEM_SWAP, 4},
                 {OP_ELEM_TO_REF, 6}, {OP_REF_TO_ELEM, 6}, {OP_ELEM_DESTROY, 4}, {OP_ELEM_WRITE, 6}, {OP_WRITE, 4},
                 {OP_ERASE, 2}, {OP_POP_BACK, 2}, {OP_RESERVE, 2}, {OP_COPY_CONSTRUCT, 1}});
            break;
        case C13:
        case C14:
            set({{OP_COMPARE, 30}, {OP_MAKE_EQUAL, 10}, {OP_MAKE_ALIAS, 4}, {OP_ELEM_CONSTRUCT, 5}, {OP_ELEM_COPY, 2}, {OP_WRITE, 4},
                 {OP_ERASE, 3}, {OP_POP_BACK, 3}, {OP_RESERVE, 3}, {OP_COPY_CONSTRUCT, 3}, {OP_CLEAR, 1},
                 {OP_DEFAULT_CONSTRUCT, 1}, {OP_ELEM_DESTROY, 1}});
            p.small_domain = 3;
            break;
        case C17:
            set({{OP_RESERVE, 12}, {OP_COPY_CONSTRUCT, 8}, {OP_COPY_ASSIGN, 10}, {OP_MOVE_ASSIGN, 10},
                 {OP_ELEM_CONSTRUCT, 8}, {OP_ELEM_COPY, 5}, {OP_ELEM_ASSIGN, 8}, {OP_ELEM_DESTROY, 2}, {OP_ERASE, 3},
                 {OP_POP_BACK, 2}, {OP_CLEAR, 2}, {OP_DESTROY, 3}});
            p.fail_pct = 40;
            break;
        case C18:
            set({{OP_DEFAULT_CONSTRUCT, 10}, {OP_EMPLACE_BACK, 10}, {OP_POP_BACK, 8}, {OP_ERASE, 5},
                 {OP_ERASE_RANGE, 8}, {OP_CLEAR, 10}, {OP_RESERVE, 8}, {OP_COPY_CONSTRUCT, 5}, {OP_MOVE_CONSTRUCT, 3},
                 {OP_COPY_ASSIGN, 5}, {OP_MOVE_ASSIGN, 4}, {OP_SWAP, 5}, {OP_COMPARE, 6}, {OP_ITER, 4},
                 {OP_DESTROY, 5}, {OP_FILL, 1}});
            break;
        default: break;
    }
    if (p.fail_pct == 0) p.fail_pct = 16;
    if (thorough)
    {
        p.max_len = 120;
    }
    return p;
}

inline std::vector<Op> generate_plan(int prop, std::uint64_t run_seed, bool thorough, bool fault_population)
{
    Rng r(derive(run_seed, "plan"));
    Rng fr(derive(run_seed, "fault"));
    Profile p = base_profile(prop, thorough);
    // swarm: disable a random subset of the optional op kinds for this run
    for (int k = 0; k < OP_COUNT; ++k)
    {
        if (k == OP_CONSTRUCT || k == OP_EMPLACE_BACK) continue;
        if (p.w[k] > 0 && r.chance(1, 4)) p.w[k] = 0;
        else if (p.w[k] > 0 && r.chance(1, 6)) p.w[k] *= 3;
    }
    if (p.small_domain && r.chance(1, 3)) p.small_domain = 2 + static_cast<int>(r.below(5));
    if (p.small_domain && r.chance(1, 2)) p.small_domain = -p.small_domain;  // scrambled: values differ in several bytes
    int total = 0;
    for (int k = 0; k < OP_COUNT; ++k) total += p.w[k];
    const int len = p.min_len + static_cast<int>(r.below(static_cast<std::uint64_t>(p.max_len - p.min_len + 1)));
    // capacity regime of this run
    const int cap_mode = static_cast<int>(r.below(4));  // 0: tiny (0..3) 1: small (0..12) 2: medium 3: any
    std::vector<Op> plan;
    plan.reserve(static_cast<std::size_t>(len));
    for (int i = 0; i < len; ++i)
    {
        Op op;
        if (i == 0) op.kind = OP_CONSTRUCT;
        else if (i == 1 && r.chance(1, 2)) op.kind = OP_CONSTRUCT;
        else
        {
            int x = static_cast<int>(r.below(static_cast<std::uint64_t>(total)));
            int k = 0;
            while (x >= p.w[k])
            {
                x -= p.w[k];
                ++k;
            }
            op.kind = k;
        }
        for (int& a : op.a) a = static_cast<int>(r.below(1000));
        if (op.kind == OP_CONSTRUCT)
        {
            switch (cap_mode)
            {
                case 0: op.a[1] = static_cast<int>(r.below(4)); break;
                case 1: op.a[1] = static_cast<int>(r.below(13)); break;
                case 2: op.a[1] = 2 + static_cast<int>(r.below(thorough ? 30 : 11)); break;
                default: op.a[1] = static_cast<int>(r.below(thorough ? 41 : 13));
            }
        }
        if (op.kind == OP_EMPLACE_BACK || op.kind == OP_MAKE_EQUAL) op.a[op.kind == OP_EMPLACE_BACK ? 4 : 5] = p.small_domain;
        if (fault_population && op_allocates(op.kind) && i > 0 && fr.below(100) < static_cast<std::uint64_t>(p.fail_pct))
        {
            op.fail = 1 + static_cast<int>(fr.below(3));
        }
        plan.push_back(op);
    }
    return plan;
}

inline std::string plan_to_text(const std::vector<Op>& plan)
{
    std::string s;
    char buf[160];
    for (auto& op : plan)
    {
        std::snprintf(buf, sizeof(buf), "%s %d %d %d %d %d %d %d\n", OP_NAMES[op.kind], op.fail, op.a[0], op.a[1], op.a[2],
                      op.a[3], op.a[4], op.a[5]);
        s += buf;
    }
    return s;
}

inline bool plan_from_file(const char* path, std::vector<Op>& plan)
{
    std::FILE* f = std::fopen(path, "r");
    if (!f) return false;
    char line[512];
    while (std::fgets(line, sizeof(line), f))
    {
        if (line[0] == '#' || line[0] == '\n') continue;
        char name[64];
        Op op;
        if (std::sscanf(line, "%63s %d %d %d %d %d %d %d", name, &op.fail, &op.a[0], &op.a[1], &op.a[2], &op.a[3],
                        &op.a[4], &op.a[5]) != 8)
        {
            std::fclose(f);
            return false;
        }
        op.kind = -1;
        for (int k = 0; k < OP_COUNT; ++k)
            if (std::strcmp(name, OP_NAMES[k]) == 0) op.kind = k;
        if (op.kind < 0)
        {
            std::fclose(f);
            return false;
        }
        plan.push_back(op);
    }
    std::fclose(f);
    return true;
}
}  // namespace sim
