// Core of the harness: parameter-list descriptors, the reference model, violation plumbing, run context.
#pragma once
#include <cntgs/contiguous.hpp>

#include "alloc.hpp"
#include "values.hpp"

#include <algorithm>
#include <array>
#include <cstdint>
#include <deque>
#include <list>
#include <optional>
#include <cstring>
#include <string>
#include <tuple>
#include <utility>
#include <vector>

#ifdef SIM_TSAN
#include <linux/futex.h>
#include <sys/syscall.h>
#include <thread>
#endif

namespace sim
{
#ifdef SIM_TSAN
// Scheduler hand-off that ThreadSanitizer cannot see: plain loads/stores in inline asm and raw futex system calls
// (no libc wrapper, no atomics), so no happens-before edge is recorded between the tasks and TSan reports every
// conflicting pair of accesses of the (instrumented) library code, while execution is the seeded serial order.
struct Handoff
{
    alignas(64) volatile int turn = -1;   // task that may run one step, -1: scheduler
    alignas(64) volatile int quit_flag = 0;

    __attribute__((no_sanitize("thread"), noinline)) static int load(const volatile int* p)
    {
        int v;
        __asm__ __volatile__("movl %1, %0" : "=r"(v) : "m"(*p) : "memory");
        return v;
    }
    __attribute__((no_sanitize("thread"), noinline)) static void store(volatile int* p, int v)
    {
        __asm__ __volatile__("movl %1, %0\n\tmfence" : "=m"(*p) : "r"(v) : "memory");
    }
    __attribute__((no_sanitize("thread"), noinline)) static long futex(volatile int* addr, int op, int val)
    {
        long ret;
        register long r10 __asm__("r10") = 0;
        __asm__ __volatile__("syscall"
                             : "=a"(ret)
                             : "0"(static_cast<long>(SYS_futex)), "D"(addr), "S"(static_cast<long>(op)),
                               "d"(static_cast<long>(val)), "r"(r10)
                             : "rcx", "r11", "memory");
        return ret;
    }
    __attribute__((no_sanitize("thread"))) void wait_turn(int t)
    {
        for (;;)
        {
            const int cur = load(&turn);
            if (cur == t || load(&quit_flag)) return;
            futex(&turn, FUTEX_WAIT, cur);
        }
    }
    __attribute__((no_sanitize("thread"))) bool quit() { return load(&quit_flag) != 0; }
    __attribute__((no_sanitize("thread"))) void step_done()
    {
        store(&turn, -1);
        futex(&turn, FUTEX_WAKE, 64);
    }
    __attribute__((no_sanitize("thread"))) void release(int t)
    {
        store(&turn, t);
        futex(&turn, FUTEX_WAKE, 64);
        for (;;)
        {
            const int cur = load(&turn);
            if (cur == -1) return;
            futex(&turn, FUTEX_WAIT, cur);
        }
    }
    __attribute__((no_sanitize("thread"))) void shutdown(int)
    {
        store(&quit_flag, 1);
        store(&turn, -2);
        futex(&turn, FUTEX_WAKE, 64);
    }
};
#endif

// ---------------------------------------------------------------------------------------------
// properties
// ---------------------------------------------------------------------------------------------
enum Prop : int
{
    C01 = 1,
    C02,
    C03,
    C04,
    C05,
    C06,
    C07,
    C08,
    C09,
    C10,
    C11,
    C12,
    C13,
    C14,
    C15,
    C16,
    C17,
    C18,
    C19,
    C20
};
using PropMask = std::uint32_t;
inline constexpr PropMask pm(int p) noexcept { return 1u << p; }
template <class... Ps>
inline constexpr PropMask pm(int p, Ps... rest) noexcept
{
    return (1u << p) | pm(rest...);
}

inline void mask_to_str(PropMask m, char* out)
{
    char* o = out;
    for (int p = 1; p <= 20; ++p)
    {
        if (m & pm(p))
        {
            if (o != out) *o++ = ',';
            o += std::sprintf(o, "C%02d", p);
        }
    }
    *o = 0;
}

inline int prop_from_str(const char* s)
{
    if ((s[0] == 'C' || s[0] == 'c') && s[1] && s[2]) return (s[1] - '0') * 10 + (s[2] - '0');
    return 0;
}

// ---------------------------------------------------------------------------------------------
// parameter descriptors (derived by the harness itself, not taken from the library's detail::)
// ---------------------------------------------------------------------------------------------
enum Kind : int
{
    K_PLAIN,
    K_FIXED,
    K_VARYING
};

template <class P>
struct PI
{
    static constexpr Kind kind = K_PLAIN;
    using T = P;
    static constexpr std::size_t align = 1;
    static constexpr bool align_as = false;
};
template <class U, std::size_t A>
struct PI<cntgs::AlignAs<U, A>>
{
    static constexpr Kind kind = K_PLAIN;
    using T = U;
    static constexpr std::size_t align = A;
    static constexpr bool align_as = true;
};
template <class U>
struct PI<cntgs::FixedSize<U>>
{
    static constexpr Kind kind = K_FIXED;
    using T = typename PI<U>::T;
    static constexpr std::size_t align = PI<U>::align;
    static constexpr bool align_as = PI<U>::align_as;
};
template <class U>
struct PI<cntgs::VaryingSize<U>>
{
    static constexpr Kind kind = K_VARYING;
    using T = typename PI<U>::T;
    static constexpr std::size_t align = PI<U>::align;
    static constexpr bool align_as = PI<U>::align_as;
};

// a contiguous source whose value type differs from the stored type (conversion, never a bit copy)
template <class U>
struct ConvOf
{
    using type = void;
};
template <> struct ConvOf<float> { using type = std::int32_t; };
template <> struct ConvOf<double> { using type = std::int64_t; };
template <> struct ConvOf<std::uint16_t> { using type = std::uint32_t; };
template <> struct ConvOf<std::uint8_t> { using type = int; };
template <> struct ConvOf<std::uint32_t> { using type = std::uint64_t; };
template <> struct ConvOf<char> { using type = int; };
template <> struct ConvOf<std::int32_t> { using type = std::int64_t; };


// ---------------------------------------------------------------------------------------------
// reference model: a sequence of tuples of value lists
// ---------------------------------------------------------------------------------------------
using MField = std::vector<std::uint64_t>;  // plain: exactly one value

struct MElem
{
    std::vector<MField> f;
    bool operator==(const MElem& o) const { return f == o.f; }
};

struct MVec
{
    bool moved_from = false;
    std::size_t cap = 0;
    std::size_t budget = 0;  // bytes of varying payload the harness may still rely on (documented precondition)
    std::vector<std::size_t> fixed;
    std::vector<MElem> e;
    int alloc_id = 0;
    bool ever_held = false;
    bool exact_block = false;  // block obtained by construction / growing reserve for exactly (cap, budget)
    std::size_t moved_mc = 0;  // moved-from by element-wise transfer: memory_consumption() it still has
    int moved_block = -1;      // moved-from by element-wise transfer: block that still holds the moved-from objects
};

// ---------------------------------------------------------------------------------------------
// operations (raw integer arguments, resolved modulo the current state at execution time)
// ---------------------------------------------------------------------------------------------
enum OpKind : int
{
    OP_CONSTRUCT,       // a0 slot, a1 cap, a2 budget mode, a3 fixed-size seed, a4 allocator
    OP_DEFAULT_CONSTRUCT,  // a0 slot
    OP_DESTROY,         // a0 slot
    OP_EMPLACE_BACK,    // a0 slot, a1 size mode, a2 payload seed, a3 source form
    OP_POP_BACK,        // a0 slot
    OP_ERASE,           // a0 slot, a1 index
    OP_ERASE_RANGE,     // a0 slot, a1 first, a2 count mode
    OP_CLEAR,           // a0 slot
    OP_RESERVE,         // a0 slot, a1 n mode, a2 delta, a3 budget mode
    OP_FILL,            // a0 slot, a1 split mode, a2 payload seed : emplace_back until exactly full (N and B)
    OP_COPY_CONSTRUCT,  // a0 dst, a1 src
    OP_MOVE_CONSTRUCT,  // a0 dst, a1 src
    OP_COPY_ASSIGN,     // a0 dst, a1 src
    OP_MOVE_ASSIGN,     // a0 dst, a1 src
    OP_SWAP,            // a0, a1
    OP_WRITE,           // a0 slot, a1 index, a2 param, a3 path, a4 seed
    OP_REF_ASSIGN,      // a0 dst slot, a1 dst index, a2 src slot, a3 src index, a4 mode
    OP_REF_SWAP,        // a0 slot, a1 i, a2 slot, a3 j, a4 mode (swap / iter_swap)
    OP_ALGO,            // a0 slot, a1 algo, a2 x, a3 y
    OP_ELEM_CONSTRUCT,  // a0 eslot, a1 vslot, a2 index, a3 mode, a4 allocator
    OP_ELEM_COPY,       // a0 dst eslot, a1 src eslot, a2 mode (copy/move/alloc-extended), a3 allocator
    OP_ELEM_ASSIGN,     // a0 dst eslot, a1 src eslot, a2 mode (copy/move)
    OP_ELEM_SWAP,       // a0, a1
    OP_ELEM_TO_REF,     // a0 eslot, a1 vslot, a2 index, a3 mode (copy/move)
    OP_REF_TO_ELEM,     // a0 eslot, a1 vslot, a2 index, a3 mode
    OP_ELEM_DESTROY,    // a0 eslot
    OP_ELEM_WRITE,      // a0 eslot, a1 param, a2 seed
    OP_COMPARE,         // a0 lhs operand, a1 rhs operand, a2 operand kinds
    OP_ITER,            // a0 slot, a1 x, a2 y : iterator arithmetic / comparisons
    OP_MAKE_EQUAL,      // a0 dst slot, a1 src slot, a2 history mode, a3 tweak : rebuild dst with src's logical content through a different history
    OP_MAKE_ALIAS,      // a0,a1 dst slots, a2/a3 seed, a4 form : two elements of different field sizes whose packed bytes are identical
    OP_COUNT
};

inline const char* const OP_NAMES[OP_COUNT] = {
    "construct",     "default_construct", "destroy",       "emplace_back", "pop_back",     "erase",
    "erase_range",   "clear",             "reserve",       "fill",         "copy_construct", "move_construct",
    "copy_assign",   "move_assign",       "swap",          "write",        "ref_assign",   "ref_swap",
    "algo",          "elem_construct",    "elem_copy",     "elem_assign",  "elem_swap",    "elem_to_ref",
    "ref_to_elem",   "elem_destroy",      "elem_write",    "compare",      "iter",         "make_equal",
    "make_alias"};

struct Op
{
    int kind = 0;
    int fail = 0;  // F1: the fail-th allocation inside this op throws (0 = none)
    int a[6] = {0, 0, 0, 0, 0, 0};
};

// ---------------------------------------------------------------------------------------------
// run context: violations, counters, event log
// ---------------------------------------------------------------------------------------------
struct Violation
{
    bool set = false;
    PropMask props = 0;
    std::string cls;
    std::string key;
    int step = -1;
    int op = -1;
};

enum Probe : int
{
    PB_ERASE_UNEQUAL_SIZES,
    PB_ERASE_OVERLAPPING_RELOCATION,
    PB_ERASE_LAST,
    PB_ERASE_FIRST,
    PB_ERASE_EMPTY_RANGE,
    PB_ERASE_WHOLE_RANGE,
    PB_EMPLACE_AFTER_ERASE_VARYING,
    PB_GROWING_RESERVE_PARTLY_FILLED,
    PB_GROWING_RESERVE_EMPTY,
    PB_GROWING_RESERVE_FULL,
    PB_NOOP_RESERVE,
    PB_EXACT_FILL_N_AND_B,
    PB_EXACT_FILL_N,
    PB_ZERO_COUNT_SPAN,
    PB_COPY_ASSIGN_REUSES_BLOCK,
    PB_COPY_ASSIGN_REALLOCATES,
    PB_MOVE_ASSIGN_UNEQUAL_TARGET_SMALLER,
    PB_MOVE_ASSIGN_UNEQUAL_TARGET_LARGER,
    PB_MOVE_ASSIGN_EQUAL,
    PB_MOVED_FROM_REUSED,
    PB_SELF_ASSIGN,
    PB_SELF_SWAP,
    PB_ELEM_ASSIGN_SMALLER_INTO_LARGER,
    PB_ELEM_ASSIGN_LARGER_INTO_SMALLER,
    PB_ELEM_ASSIGN_UNEQUAL_ALLOC,
    PB_ELEM_FROM_RVALUE_REF,
    PB_EMPTY_VARYING_OBSERVED_BEFORE_FIRST_EMPLACE,
    PB_EMPTY_OP_ON_DEFAULT_CONSTRUCTED,
    PB_EMPTY_OP_ON_ZERO_CAPACITY,
    PB_EMPTY_OP_AFTER_EMPTIED,
    PB_PADDING_BETWEEN_FIELDS_PRESENT,
    PB_PADDING_BETWEEN_ELEMENTS_PRESENT,
    PB_COMPARE_EQUAL_CONTENT_DIFFERENT_HISTORY,
    PB_COMPARE_PREFIX,
    PB_COMPARE_DIFFER_ONE_FIELD,
    PB_COMPARE_EMPTY,
    PB_TIE_IN_LEADING_FIELD,
    PB_ALLOC_FAILURE_FIRED_1,
    PB_ALLOC_FAILURE_FIRED_2,
    PB_ALLOC_FAILURE_FIRED_3PLUS,
    PB_UNEQUAL_ALLOC_OPERANDS,
    PB_WRITE_THROUGH_PROXY,
    PB_ALGO_PERMUTATION,
    PB_VALUE_COPY_THREW_IN_SHARED_COPY,
    PB_ALIASING_BYTE_STREAMS,
    PB_ALIASING_CONFIRMED,
    PB_COUNT
};

inline const char* const PROBE_NAMES[PB_COUNT] = {
    "erase_unequal_sizes",
    "erase_overlapping_relocation",
    "erase_last",
    "erase_first",
    "erase_empty_range",
    "erase_whole_range",
    "emplace_after_erase_varying",
    "growing_reserve_partly_filled",
    "growing_reserve_empty",
    "growing_reserve_full",
    "noop_reserve",
    "exact_fill_N_and_B",
    "exact_fill_N",
    "zero_count_span",
    "copy_assign_reuses_block",
    "copy_assign_reallocates",
    "move_assign_unequal_target_smaller",
    "move_assign_unequal_target_larger",
    "move_assign_equal",
    "moved_from_reused",
    "self_assign",
    "self_swap",
    "element_assign_smaller_into_larger",
    "element_assign_larger_into_smaller",
    "element_assign_unequal_alloc",
    "element_from_rvalue_ref",
    "empty_varying_observed_before_first_emplace",
    "empty_op_on_default_constructed",
    "empty_op_on_zero_capacity",
    "empty_op_after_emptied",
    "padding_between_fields_present",
    "padding_between_elements_present",
    "compare_equal_content_different_history",
    "compare_prefix",
    "compare_differ_one_field",
    "compare_empty",
    "tie_in_leading_field",
    "alloc_failure_fired_1",
    "alloc_failure_fired_2",
    "alloc_failure_fired_3plus",
    "unequal_alloc_operands",
    "write_through_proxy",
    "algo_permutation",
    "value_copy_constructor_threw_while_copying_shared",
    "aliasing_byte_streams_built",
    "aliasing_byte_streams_confirmed"};

struct Counters
{
    std::uint64_t runs = 0, steps = 0, skipped_ops = 0, blocked_runs = 0, capped_runs = 0, avoided_kf = 0;
    std::uint64_t ops[OP_COUNT] = {};
    std::uint64_t probes[PB_COUNT] = {};
    std::uint64_t oracle_evals = 0;
    std::uint64_t ignored_other_prop = 0;
    std::uint64_t value_throws = 0, abandoned_objects = 0, abandoned_blocks = 0;  // F10
};

struct RunCtx
{
    int focus = C01;
    Violation focus_viol;   // first violation that concerns the focused property
    Violation block;        // first fatal violation of another property (run is blocked)
    bool stop = false;
    bool fault_seen = false;  // an injected allocation failure fired earlier in this run
    bool capped = false;
    int step = 0;
    int op_kind = -1;
    PropMask op_domain = 0;  // properties for which the current op is a subject
    Fnv log;
    Counters* ctr = nullptr;
    std::vector<std::uint64_t>* nontrivial = nullptr;  // distinct-case hashes
    // known-finding trigger keys the interpreter must stay out of (decidable before execution)
    std::vector<std::string> avoid;
    // signature findings: non-corrupting known defects that are counted instead of reported
    std::vector<std::string> known;
    std::vector<std::uint64_t> known_hits;
    bool avoids(const char* key) const
    {
        for (const auto& k : avoid)
            if (k == key) return true;
        return false;
    }
};

inline RunCtx* g_run = nullptr;
// state the crash handlers print (async-signal-safe reads of plain ints)
inline volatile int g_cur_op = -1;
inline volatile int g_cur_step = -1;
inline volatile PropMask g_cur_domain = 0;
inline volatile long g_cur_run = -1;

// is a violation of (props, cls) one that leaves the world in an untrustworthy state?
inline bool is_fatal_class(const char* cls)
{
    static const char* const NONFATAL[] = {"misaligned",          "leak",           "layout-not-tight",
                                          "footprint",           "ledger-bytes",   "wrong-allocator",
                                          "address-changed",     "hidden-allocation", "compare-mismatch",
                                          "compare-law",         "order",          "global-new",
                                          "data-range",          "empty-observers", "iterator-data",
                                          "free-wrong-size",     "free-foreign-allocator", "owns-foreign-block",
                                          "capacity-changed",    "compare-materialisation"};
    for (auto* n : NONFATAL)
        if (std::strcmp(n, cls) == 0) return false;
    return true;
}

// C17 speaks about leaks, double frees, object lifetimes and validity of the operands after a failed allocation
inline bool c17_relevant(const char* cls)
{
    static const char* const REL[] = {"leak", "double-free", "free-unknown-pointer", "free-wrong-size",
                                      "free-foreign-allocator", "never-destroyed", "destroy-not-alive",
                                      "live-not-held", "held-not-live", "held-object-not-alive", "use-of-dead-object",
                                      "clobbered-alive-object", "alive-in-freed-block", "construct-over-live-object",
                                      "size-mismatch", "empty-mismatch", "value-mismatch", "not-in-live-block",
                                      "address-changed", "capacity-mismatch", "fixed-size-mismatch"};
    for (auto* n : REL)
        if (std::strcmp(n, cls) == 0) return true;
    return false;
}

inline void report(PropMask props, const char* cls, const std::string& key, const char* sig = nullptr)
{
    HarnessScope hs;
    RunCtx* r = g_run;
    if (!r) return;
    if (sig)
    {
        for (std::size_t i = 0; i < r->known.size(); ++i)
            if (r->known[i] == sig)
            {
                if (r->known_hits.size() < r->known.size()) r->known_hits.resize(r->known.size());
                ++r->known_hits[i];
                return;
            }
    }
    if ((r->fault_seen || g_heap.fault_fired) && c17_relevant(cls)) props |= pm(C17);
    if (props & pm(r->focus))
    {
        if (!r->focus_viol.set)
        {
            r->focus_viol = Violation{true, props, cls, sig ? std::string(sig) + ": " + key : key, r->step, r->op_kind};
        }
        r->stop = true;
        return;
    }
    if (is_fatal_class(cls))
    {
        if (!r->block.set)
        {
            r->block = Violation{true, props, cls, key, r->step, r->op_kind};
        }
        r->stop = true;
        return;
    }
    if (r->ctr) ++r->ctr->ignored_other_prop;
}

inline void env_violation(const char* prop, const char* cls, const char* key, long a, long b)
{
    HarnessScope hs;
    (void)a;
    (void)b;
    // the step's own domain is added for lifetime/heap violations raised inside a subject operation
    PropMask m = pm(prop_from_str(prop));
    // a block given back through an allocator that does not compare equal to the one it came from is the memory-safety
    // face (C07) of "never owns memory from an allocator unequal to get_allocator()" (C08)
    if (std::strcmp(cls, "free-foreign-allocator") == 0) m |= pm(C08);
    report(m, cls, key);
}

inline void probe(int p)
{
    if (g_run && g_run->ctr) ++g_run->ctr->probes[p];
}
}  // namespace sim
