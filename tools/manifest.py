#!/usr/bin/env python3
"""Writes MANIFEST.json (kept in sync with driver/verif.py CLAIMED)."""
import json
CLAIMED = {
 'C01': ('sequence-of-tuples refinement: seeded operation histories against a reference model, audited after every step', '4 C01'),
 'C02': ('guard pages / red zones / exact-fit budgets: no access outside the block, data range within memory_consumption()', '4 C02'),
 'C03': ('minimally aligned block bases and every size residue: AlignAs objects are A-aligned in every reachable state', '4 C03'),
 'C04': ('address order / containment / disjointness of all stored objects and span sizes after every step', '4 C04'),
 'C05': ('independent greedy layout, exact footprint of full fixed vectors, footprint bound after reserve/copy/move/assign', '4 C05'),
 'C06': ('lifetime ledger of instrumented value types: constructed once, destroyed once, never clobbered alive', '4 C06'),
 'C07': ('block ledger: every byte from the allocator, returned once with the right size through an equal allocator, nothing left at teardown', '4 C07'),
 'C08': ('all eight propagation-trait combinations x SOCCC same/derived: get_allocator() identity and block ownership after every op', '4 C08'),
 'C09': ('copy/move/swap value semantics incl. independence, moved-from reuse, self-assignment, all allocator relations', '4 C09'),
 'C10': ('reserve on any state: no-op below capacity (no allocator event), contents unchanged, then fill to the new N and B under guards', '4 C10'),
 'C11': ('proxy consistency of all access paths, reference assign/swap, iterator arithmetic, permuting algorithms vs. model', '4 C11'),
 'C12': ('ContiguousElement construction/assignment/swap matrix vs. model, independence from the vector, storage ownership', '4 C12'),
 'C13': ('== / != vs. model equality under adversarial junk, stale reuse, different histories; environment-differential replay', '4 C13'),
 'C14': ('order laws on pairs/triples, materialisation- and environment-independence, vector < vs. lexicographical law', '4 C14'),
 'C16': ('address snapshots and allocator-event counters around every operation', '4 C16'),
 'C17': ('every allocation of every allocating operation fails in turn over sampled states; ledger + lifetime + validity oracles', '4 C17'),
 'C18': ('every way of being empty x applicable operations under guard pages and plausible junk in unwritten bookkeeping', '4 C18'),
 'C19': ('seeded schedules of up to 16 reader tasks over shared vectors/elements; any write from a const path is detected by page protection and (TSan flavour, real threads released one at a time) as a data race; allocation failures and throwing value copy constructors are injected into copies of the shared objects', '4 C19'),
}
checks = []
for pid, (text, ref) in CLAIMED.items():
    level = 'fault_enumeration' if pid == 'C17' else 'exploration'
    checks.append({
        'property_id': pid,
        'quick_cmd': './check %s quick' % pid,
        'thorough_cmd': './check %s thorough' % pid,
        'evidence_file': 'evidence/%s.json' % pid,
        'replay_cmd_template': './check replay {path}',
        'engine': 'contiguous-dsim',
        'level_claimed': {'category': level, 'text': text + '. Seeded sampling over histories x environments x configurations: a clean batch is evidence, not proof.', 'design_ref': 'DESIGN.md section ' + ref},
        'level_note': 'trusted base: the harness (sim/*.hpp, reference model, SimHeap ledger), g++/clang, the kernel mmap/mprotect semantics; the interpreter enforces the documented preconditions; value types throw only in C19 (F10, copies of shared objects); source iterators never throw',
        'technique': 'deterministic simulation with fault injection (seeded allocator environment + operation histories, reference model oracle)',
    })
m = {
 'version': 1,
 'setup_cmd': './check build quick',
 'hooks': {'guard': 'CNTGS_VERIF_SIM', 'enable': 'no hook was needed: every seam (allocator, value types, caller threads) is a template parameter or the caller; checks compile /repo/src as is',
           'baseline_off_cmd': 'ninja -C /repo/_build cntgs-test-cpp17 cntgs-test-cpp20 cntgs-example-fixed-vector cntgs-example-pmr-vector && ctest --test-dir /repo/_build -j8 --timeout 900',
           'source_commits': [], 'add_only': True},
 'engines': [{'name': 'contiguous-dsim', 'path': 'driver/verif.py', 'serves_properties': list(CLAIMED),
              'kind_free_text': 'deterministic simulator: seeded environment (SimHeap allocator: placement, junk, stale reuse, failure injection, identities), instrumented value types, cooperative reader-task scheduler; real library code; executable reference model'}],
 'checks': checks,
 'notes': 'See DESIGN.md. KNOWN_FINDINGS.txt lists genuine defects (known:) and repaired ones (fixed:).',
 'not_applicable': [
  {'property_id': 'C15', 'reason': 'emplace_back(source form) is a pure compile-time-dispatched function of its arguments: no schedule, fault, history or allocator decision in it; generating inputs would be property-based testing in simulator vocabulary (DESIGN.md section 4 C15)'},
  {'property_id': 'C20', 'reason': 'well-formedness is decided by the compiler per instantiation; there is no execution to simulate or inject faults into (DESIGN.md section 4 C20)'},
 ],
}
json.dump(m, open(__import__('os').path.join(__import__('os').path.dirname(__import__('os').path.dirname(__import__('os').path.abspath(__file__))), 'MANIFEST.json'), 'w'), indent=1)
