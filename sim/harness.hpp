// Harness<Traits, Parameter...>: world (vector + element slots with model twins), snapshots and audits.
// The operation interpreter lives in ops.hpp (same class, included at the marked point).
#pragma once
#include "core.hpp"

namespace sim
{
struct FieldSpan
{
    std::uintptr_t b, e;
};

struct Snapshot
{
    bool valid = false;
    std::uintptr_t data_begin = 0, data_end = 0;
    std::size_t cap = 0;
    std::vector<std::vector<FieldSpan>> el;  // [element][param]
};

template <class Tr, class... P>
struct Harness
{
    static constexpr std::size_t N = sizeof...(P);
    using A = SimAlloc<std::byte, Tr>;
    using V = cntgs::BasicContiguousVector<cntgs::Options<cntgs::Allocator<A>>, P...>;
    using E = typename V::value_type;
    using VA = typename V::allocator_type;
    using Seq = std::make_index_sequence<N>;
    template <std::size_t I>
    using Par = std::tuple_element_t<I, std::tuple<P...>>;
    template <std::size_t I>
    using T = typename PI<Par<I>>::T;

    static constexpr std::array<Kind, N> KIND{PI<P>::kind...};
    static constexpr std::array<std::size_t, N> ALIGN{PI<P>::align...};
    static constexpr std::array<bool, N> ALIGN_AS{PI<P>::align_as...};
    static constexpr std::array<std::size_t, N> VSIZE{sizeof(typename PI<P>::T)...};
    static constexpr std::array<bool, N> F_TRACKED{Codec<typename PI<P>::T>::TRACKED...};
    static constexpr std::array<MovedState, N> F_MOVED{Codec<typename PI<P>::T>::MOVED...};
    static constexpr std::array<bool, N> F_TRIV_ASSIGN{std::is_trivially_copy_assignable_v<typename PI<P>::T>...};

    // largest span length the count parameter in front of a VaryingSize can express
    template <class U>
    static constexpr std::size_t count_max_of()
    {
        if constexpr (std::is_integral_v<U>)
            return static_cast<std::size_t>(std::min<std::uint64_t>(std::numeric_limits<U>::max(), 1u << 20));
        else return 0;
    }
    static constexpr std::array<std::size_t, N + 1> make_count_max()
    {
        std::array<std::size_t, N + 1> r{};
        std::array<std::size_t, N> own{count_max_of<typename PI<P>::T>()...};
        for (std::size_t i = 1; i < N; ++i) r[i] = own[i - 1];
        return r;
    }
    static constexpr std::array<std::size_t, N + 1> COUNT_MAX = make_count_max();

    static constexpr std::size_t count_kind(Kind k)
    {
        std::size_t n = 0;
        for (auto x : KIND) n += (x == k);
        return n;
    }
    static constexpr std::size_t NFIXED = count_kind(K_FIXED);
    static constexpr std::size_t NVARYING = count_kind(K_VARYING);
    static constexpr bool HAS_VARYING = NVARYING != 0;
    static constexpr bool ALL_PLAIN = NFIXED == 0 && NVARYING == 0;
    static constexpr bool ALL_FIXED = NFIXED != 0 && NVARYING == 0;
    static constexpr bool ALL_VARYING = NFIXED == 0 && NVARYING != 0;
    static constexpr bool MIXED = NFIXED != 0 && NVARYING != 0;
    static constexpr std::size_t MAX_ALIGN = std::max({PI<P>::align...});
    static constexpr bool TRIVIAL = (std::is_trivially_copyable_v<typename PI<P>::T> && ...);
    static constexpr bool ANY_TRACKED = (Codec<typename PI<P>::T>::TRACKED || ...);
    static constexpr bool MOVE_ONLY = (Codec<typename PI<P>::T>::MOVE_ONLY || ...);
    static constexpr bool ANY_IDENTITY = (Codec<typename PI<P>::T>::IDENTITY_EQ || ...);
    static constexpr bool VALUES_ALLOCATE = (Codec<typename PI<P>::T>::ALLOCATES || ...);
    static constexpr bool STATEFUL = !Tr::ALWAYS_EQUAL;
    static constexpr std::array<bool, N> F_COPYCOUNTED{IsCopyCounted<typename PI<P>::T>::value...};
    static constexpr bool ANY_COPYCOUNTED = (IsCopyCounted<typename PI<P>::T>::value || ...);
    static constexpr std::array<bool, N> F_STICKY{IsSticky<typename PI<P>::T>::value...};
    static constexpr bool ANY_STICKY = (IsSticky<typename PI<P>::T>::value || ...);
    static constexpr bool VALUES_CAN_THROW = (CanThrowOnCopy<typename PI<P>::T>::value || ...);

    static constexpr bool is_count(std::size_t i) { return i + 1 < N && KIND[i + 1] == K_VARYING; }
    static constexpr std::size_t fixed_index(std::size_t i)
    {
        std::size_t n = 0;
        for (std::size_t k = 0; k < i; ++k) n += (KIND[k] == K_FIXED);
        return n;
    }

    static constexpr int NV = 4;
    static constexpr int NE = 4;

    // The container objects live in two mmap'ed pages owned by the run: page 0 holds slots 0,1 (the ones C19 shares
    // between reader tasks and write-protects), page 1 holds slots 2,3.
    struct VSlot
    {
        unsigned char* storage = nullptr;
        bool exists = false;
        MVec m;
        Snapshot snap;
        V& v() { return *std::launder(reinterpret_cast<V*>(storage)); }
    };
    struct ESlot
    {
        unsigned char* storage = nullptr;
        bool exists = false;
        MElem m;
        int alloc_id = 0;
        bool moved_from = false;
        E& e() { return *std::launder(reinterpret_cast<E*>(storage)); }
    };

    VSlot vs[NV];
    ESlot es[NE];
    RunCtx& rc;
    std::uint64_t payload_counter = 0;
    bool scramble_domain = false;
    std::uint64_t new_in_lib = 0;

    static constexpr std::size_t SLOT_V = (sizeof(V) + 63) / 64 * 64;
    static constexpr std::size_t SLOT_E = (sizeof(E) + 63) / 64 * 64;
    static_assert(2 * (SLOT_V + SLOT_E) <= PAGE, "container objects of two slots must fit into one page");
    unsigned char* obj_pages = nullptr;
    bool c19_shared[NV] = {};   // slot is shared between reader tasks: only const member functions may be called
    bool c19_eshared[NE] = {};

    explicit Harness(RunCtx& r) : rc(r)
    {
        obj_pages = static_cast<unsigned char*>(
            ::mmap(nullptr, 2 * PAGE, PROT_READ | PROT_WRITE, MAP_PRIVATE | MAP_ANONYMOUS, -1, 0));
        g_obj_pages = obj_pages;
        for (int s = 0; s < NV; ++s) vs[s].storage = obj_pages + (s / 2) * PAGE + (s % 2) * SLOT_V;
        for (int s = 0; s < NE; ++s) es[s].storage = obj_pages + (s / 2) * PAGE + 2 * SLOT_V + (s % 2) * SLOT_E;
    }
    Harness(const Harness&) = delete;

    // -----------------------------------------------------------------------------------------
    // helpers
    // -----------------------------------------------------------------------------------------
    static std::size_t payload_bytes(const MElem& e)
    {
        std::size_t b = 0;
        for (std::size_t i = 0; i < N; ++i)
            if (KIND[i] == K_VARYING) b += e.f[i].size() * VSIZE[i];
        return b;
    }
    static std::size_t used_payload(const MVec& m)
    {
        std::size_t b = 0;
        for (auto& e : m.e) b += payload_bytes(e);
        return b;
    }
    static VA make_alloc(int id) { return VA(A(id)); }
    static int alloc_id_of(const VA& a) { return a.id(); }
    static int norm_alloc(int raw)
    {
        if (!STATEFUL) return 0;
        return 1 + (raw % 3 + 3) % 3;
    }

    template <std::size_t I>
    static std::uint64_t canon(std::uint64_t v)
    {
        return Codec<T<I>>::canon(v);
    }

    std::uint64_t fresh_value(std::uint64_t seed, std::size_t param, int small_domain)
    {
        ++payload_counter;
        const std::uint64_t h = mix64(seed * 1000003ull + payload_counter * 7919ull + param);
        if (small_domain > 0)
        {
            // small domains make ties occur; the "scrambled" variant (negative raw domain) spreads the few values over
            // several bytes so that numeric order and byte order disagree (little-endian memcmp shortcuts)
            const auto i = h % static_cast<std::uint64_t>(small_domain);
            if (!scramble_domain) return i;
            // odd domains: 0, -1, -2, ... (negative values of signed types, all-ones high bytes of unsigned ones)
            if (small_domain % 2 == 1) return std::uint64_t{0} - i;
            return (i << 8) | (static_cast<std::uint64_t>(small_domain) - 1 - i);
        }
        return h;
    }

    // build a model element: counts[i] for fixed/varying params; values fresh
    template <std::size_t... I>
    MElem make_elem(const std::array<std::size_t, N>& counts, std::uint64_t seed, int small_domain,
                    std::index_sequence<I...>)
    {
        MElem e;
        e.f.resize(N);
        (
            [&]
            {
                if constexpr (KIND[I] == K_PLAIN)
                {
                    if (is_count(I)) e.f[I] = {canon<I>(counts[I + 1])};
                    else e.f[I] = {canon<I>(fresh_value(seed, I, small_domain))};
                }
                else
                {
                    e.f[I].resize(counts[I]);
                    for (auto& x : e.f[I]) x = canon<I>(fresh_value(seed, I, small_domain));
                }
            }(),
            ...);
        return e;
    }

    // -----------------------------------------------------------------------------------------
    // reading an element through a reference-like object (reference, const_reference, element)
    // -----------------------------------------------------------------------------------------
    template <std::size_t I, class F>
    static void read_field_of(F&& f, MField& out, FieldSpan& sp)
    {
        if constexpr (KIND[I] == K_PLAIN)
        {
            out.assign(1, Codec<T<I>>::read(f));
            sp.b = reinterpret_cast<std::uintptr_t>(std::addressof(f));
            sp.e = sp.b + sizeof(T<I>);
        }
        else
        {
            out.clear();
            std::size_t n = f.size();
            auto* p = f.data();
            if (n > (std::size_t{1} << 22))
            {
                // no run stores spans of this length: the size was read from bytes that hold something else
                env_violation("C04", "absurd-span-size", "a span reports more than 2^22 objects");
                n = 0;
            }
            out.reserve(n);
            for (std::size_t k = 0; k < n; ++k) out.push_back(Codec<T<I>>::read(p[k]));
            sp.b = reinterpret_cast<std::uintptr_t>(p);
            sp.e = sp.b + n * sizeof(T<I>);
        }
    }

    template <class R, std::size_t... I>
    static void read_elem(R&& r, MElem& out, std::vector<FieldSpan>& spans, std::index_sequence<I...>)
    {
        out.f.resize(N);
        spans.resize(N);
        (read_field_of<I>(cntgs::get<I>(r), out.f[I], spans[I]), ...);
    }

    // only sizes and addresses of the spans (no value reads)
    template <class R, std::size_t... I>
    static void span_elem(R&& r, std::vector<FieldSpan>& spans, std::index_sequence<I...>)
    {
        spans.resize(N);
        (
            [&]
            {
                auto&& f = cntgs::get<I>(r);
                if constexpr (KIND[I] == K_PLAIN)
                {
                    spans[I].b = reinterpret_cast<std::uintptr_t>(std::addressof(f));
                    spans[I].e = spans[I].b + sizeof(T<I>);
                }
                else
                {
                    spans[I].b = reinterpret_cast<std::uintptr_t>(f.data());
                    spans[I].e = spans[I].b + f.size() * sizeof(T<I>);
                }
            }(),
            ...);
    }

    static std::string where(int slot, std::size_t elem, std::size_t param)
    {
        char buf[96];
        std::snprintf(buf, sizeof(buf), "slot%d.elem%zu.field%zu", slot, elem, param);
        return buf;
    }

    // compare a read element with the model; V_UNSPEC in the model matches anything
    bool elem_matches(const MElem& got, const MElem& want, std::string& why) const
    {
        for (std::size_t i = 0; i < N; ++i)
        {
            if (got.f[i].size() != want.f[i].size())
            {
                why = "field" + std::to_string(i) + ".size";
                return false;
            }
            for (std::size_t k = 0; k < want.f[i].size(); ++k)
            {
                if (want.f[i][k] == V_UNSPEC) continue;
                if (got.f[i][k] != want.f[i][k])
                {
                    why = "field" + std::to_string(i) + ".value";
                    return false;
                }
            }
        }
        return true;
    }

    // -----------------------------------------------------------------------------------------
    // independent greedy layout (C05): returns expected [begin,end) of every field of an element that
    // starts at `start`, and the end of the element
    // -----------------------------------------------------------------------------------------
    static std::uintptr_t align_up(std::uintptr_t a, std::size_t al) { return (a + al - 1) / al * al; }

    static std::uintptr_t greedy(std::uintptr_t start, const MElem& e, std::vector<FieldSpan>& out)
    {
        out.resize(N);
        std::uintptr_t cur = start;
        for (std::size_t i = 0; i < N; ++i)
        {
            cur = align_up(cur, ALIGN[i]);
            out[i].b = cur;
            cur += e.f[i].size() * VSIZE[i];
            out[i].e = cur;
        }
        return cur;
    }

    // -----------------------------------------------------------------------------------------
    // audit of one vector slot against its model (all public API); fills a new snapshot
    // -----------------------------------------------------------------------------------------
    void audit_vector(int s, int path_salt, bool all_paths)
    {
        VSlot& sl = vs[s];
        if (!sl.exists) return;
        V& v = sl.v();
        const V& cv = v;
        const MVec& m = sl.m;
        Snapshot snap;
        snap.valid = true;
        if (m.moved_from)
        {
            // C09: a moved-from vector may only be destroyed, cleared, assigned to, swapped: nothing is observed
            sl.snap = Snapshot{};
            return;
        }
        ++rc.ctr->oracle_evals;
        const PropMask dom = rc.op_domain;
        const std::size_t n = v.size();
        if (n != m.e.size())
        {
            report(dom, "size-mismatch",
                   "slot" + std::to_string(s) + " size=" + std::to_string(n) + " model=" + std::to_string(m.e.size()));
            return;
        }
        if (v.empty() != m.e.empty())
        {
            report(dom, "empty-mismatch", "slot" + std::to_string(s));
            return;
        }
        if (v.capacity() != m.cap && rc.focus == C02)
        {
            // C02 speaks about memory safety within the capacity the vector *declares*; whether that is the right
            // capacity is C01/C10/C17's business. Adopt it, so that later fills go up to what capacity() promises.
            sl.m.cap = v.capacity();
        }
        if (v.capacity() != m.cap)
        {
            report(dom, "capacity-mismatch", "slot" + std::to_string(s) + " capacity=" + std::to_string(v.capacity()) +
                                                 " model=" + std::to_string(m.cap));
            return;
        }
        check_fixed_sizes(s, Seq{});
        if (rc.stop) return;
        const bool is_empty = m.e.empty();
        if (is_empty)
        {
            audit_empty(s);
            if (rc.stop) return;
        }
        const std::uintptr_t db = is_empty && HAS_VARYING && rc.avoids("C18.data-begin-empty-varying")
                                      ? reinterpret_cast<std::uintptr_t>(cv.data_end())
                                      : reinterpret_cast<std::uintptr_t>(cv.data_begin());
        const std::uintptr_t de = reinterpret_cast<std::uintptr_t>(cv.data_end());
        const std::size_t mc = cv.memory_consumption();
        snap.data_begin = db;
        snap.data_end = de;
        snap.cap = v.capacity();
        snap.el.resize(n);
        Block* blk = nullptr;
        if (db != 0) blk = g_heap.find_containing(reinterpret_cast<const void*>(db));
        // C02 / C07: the data lives in a live block of this vector's allocator
        if (n > 0 || db != 0)
        {
            if (de < db || de - db > mc)
            {
                report(pm(C02), "data-range",
                       "slot" + std::to_string(s) + " data_end-data_begin exceeds memory_consumption");
            }
            if (n > 0 && !blk && de != db)  // elements of zero bytes (all fixed sizes 0) need no memory at all
            {
                report(pm(C02, C07), "not-in-live-block", "slot" + std::to_string(s) + " data_begin");
                return;
            }
        }
        if (blk)
        {
            if (STATEFUL && blk->alloc_id != alloc_id_of(cv.get_allocator()))
            {
                // swap and move construction must exchange *ownership* (C16), which includes the allocator
                report(pm(C07, C08) | ((rc.op_kind == OP_SWAP || rc.op_kind == OP_MOVE_CONSTRUCT) ? pm(C16) : 0u),
                       "owns-foreign-block", "slot" + std::to_string(s) + " block.alloc=" + std::to_string(blk->alloc_id) +
                           " get_allocator=" + std::to_string(alloc_id_of(cv.get_allocator())));
            }
            if (blk->bytes != mc && blk->kind != BK_TABLE)
            {
                report(pm(C05), "ledger-bytes",
                       "slot" + std::to_string(s) + " requested=" + std::to_string(blk->bytes) +
                           " memory_consumption=" + std::to_string(mc));
            }
        }
        if (STATEFUL && alloc_id_of(cv.get_allocator()) != m.alloc_id)
        {
            report(pm(C08), "wrong-allocator",
                   "slot" + std::to_string(s) + " get_allocator=" + std::to_string(alloc_id_of(cv.get_allocator())) +
                       " expected=" + std::to_string(m.alloc_id));
        }
        // elements
        MElem got;
        std::vector<FieldSpan> expect;
        std::uintptr_t prev_end = db;
        for (std::size_t i = 0; i < n && !rc.stop; ++i)
        {
            std::vector<FieldSpan>& sp = snap.el[i];
            const bool co = c19_shared[s];  // shared between reader tasks: const member functions only
            static constexpr int CONST_PATHS[3] = {1, 3, 4};
            const int path = all_paths ? -1
                                       : (co ? CONST_PATHS[(i + static_cast<std::size_t>(path_salt)) % 3]
                                             : static_cast<int>((i + static_cast<std::size_t>(path_salt)) % 6));
            std::uintptr_t ref_b = 0, ref_e = 0;
            auto check = [&](auto&& ref, const char* pname)
            {
                read_elem(ref, got, sp, Seq{});
                ref_b = reinterpret_cast<std::uintptr_t>(ref.data_begin());
                ref_e = reinterpret_cast<std::uintptr_t>(ref.data_end());
                std::string why;
                if (!rc.stop && !elem_matches(got, m.e[i], why))
                {
                    report(dom | pm(C04) * (why.find("size") != std::string::npos), "value-mismatch",
                           std::string(pname) + " elem" + (i == 0 ? "0" : (i + 1 == n ? "last" : "mid")) + "." + why);
                }
            };
            if (!co && (path == 0 || path < 0)) check(v[i], "operator[]");
            if (path == 1 || path < 0) check(cv[i], "const operator[]");
            if (!co && (path == 2 || path < 0)) check(*(v.begin() + static_cast<std::ptrdiff_t>(i)), "*iterator");
            if (path == 3 || path < 0) check(cv.begin()[static_cast<std::ptrdiff_t>(i)], "const_iterator[]");
            if (path == 4 || path < 0)
            {
                if (i == 0 && co) check(cv.front(), "const front()");
                else if (i == 0) check(v.front(), "front()");
                else if (i + 1 == n) check(cv.back(), "const back()");
                else check(*(cv.end() - static_cast<std::ptrdiff_t>(n - i)), "*(cend-k)");
            }
            if (!co && (path == 5 || path < 0))
            {
                auto it = v.begin();
                it += static_cast<std::ptrdiff_t>(i);
                check(*it, "iterator+=");
                if (reinterpret_cast<std::uintptr_t>(it.data()) != ref_b)
                {
                    report(pm(C04), "iterator-data", "iterator.data() != reference.data_begin()");
                }
            }
            if (rc.stop) break;
            // C04 order / containment, C03 alignment, C05 tight packing, C02 inside block
            std::uintptr_t cur = ref_b;
            if (ref_b < prev_end || ref_b < db)
            {
                report(pm(C04), "order", "element begins before the previous element ends");
            }
            for (std::size_t k = 0; k < N; ++k)
            {
                if (sp[k].b < cur || sp[k].e < sp[k].b)
                {
                    report(pm(C04), "order", "field" + std::to_string(k) + " overlaps or precedes its predecessor");
                }
                cur = sp[k].e;
                if (ALIGN_AS[k] && (sp[k].b % ALIGN[k]) != 0)
                {
                    report(pm(C03), "misaligned",
                           "field" + std::to_string(k) + " align=" + std::to_string(ALIGN[k]) +
                               " residue=" + std::to_string(sp[k].b % ALIGN[k]) +
                               (i == 0 ? " elem0" : " elemN"));
                }
                if (blk && (sp[k].b < reinterpret_cast<std::uintptr_t>(blk->base) ||
                            sp[k].e > reinterpret_cast<std::uintptr_t>(blk->base) + blk->bytes))
                {
                    report(pm(C02), "field-outside-block", "field" + std::to_string(k));
                }
            }
            if (ref_e != cur || ref_b != sp[0].b)
            {
                report(pm(C04), "order", "reference data_begin/data_end do not bracket the fields");
            }
            if (ref_e > de)
            {
                report(pm(C04), "order", "element ends after data_end()");
            }
            // greedy layout anchored at element 0 (the statement is silent about a leading gap)
            const std::uintptr_t start = (i == 0) ? ref_b : align_up(prev_end, MAX_ALIGN);
            const std::uintptr_t gend = greedy(start, m.e[i], expect);
            for (std::size_t k = 0; k < N; ++k)
            {
                if (expect[k].b != sp[k].b)
                {
                    report(pm(C05), "layout-not-tight",
                           "field" + std::to_string(k) + (i == 0 ? " elem0" : " elemN") + " off by " +
                               std::to_string(static_cast<long>(sp[k].b) - static_cast<long>(expect[k].b)));
                    break;
                }
                if (expect[k].b != (k == 0 ? start : expect[k - 1].e)) probe(PB_PADDING_BETWEEN_FIELDS_PRESENT);
            }
            if (i > 0 && start != prev_end) probe(PB_PADDING_BETWEEN_ELEMENTS_PRESENT);
            (void)gend;
            prev_end = ref_e;
        }
        if (!rc.stop && n > 0 && !HAS_VARYING && n == m.cap && m.exact_block)
        {
            // full vector without VaryingSize uses exactly memory_consumption() (rounded up to the alignment)
            if (align_up(de - db, MAX_ALIGN) != align_up(mc, MAX_ALIGN))
            {
                report(pm(C05), "footprint",
                       "full fixed vector: used=" + std::to_string(de - db) + " memory_consumption=" + std::to_string(mc));
            }
        }
        if (!c19_shared[s]) sl.snap = std::move(snap);  // shared slots keep the snapshot of the set-up phase
    }

    template <std::size_t... I>
    void check_fixed_sizes(int s, std::index_sequence<I...>)
    {
        VSlot& sl = vs[s];
        (
            [&]
            {
                if constexpr (KIND[I] == K_FIXED)
                {
                    const auto got = std::as_const(sl.v()).template get_fixed_size<fixed_index(I)>();
                    if (got != sl.m.fixed[fixed_index(I)])
                    {
                        // swap / move construction exchange ownership of the stored objects (C16): with foreign fixed
                        // sizes they are looked up at other addresses
                        report(rc.op_domain | pm(C04) |
                                   ((rc.op_kind == OP_SWAP || rc.op_kind == OP_MOVE_CONSTRUCT) ? pm(C16) : 0u),
                               "fixed-size-mismatch",
                               "slot" + std::to_string(s) + " get_fixed_size<" + std::to_string(fixed_index(I)) + ">");
                    }
                }
            }(),
            ...);
    }

    // C18: observers of an empty vector
    void audit_empty(int s)
    {
        VSlot& sl = vs[s];
        V& v = sl.v();
        const V& cv = v;
        const PropMask dom = pm(C18);
        if (c19_shared[s] ? !(cv.begin() == cv.end())
                          : (!(v.begin() == v.end()) || !(cv.begin() == cv.end()) || v.begin() != v.end()))
        {
            report(dom, "empty-observers", "begin() != end()");
        }
        if (HAS_VARYING && rc.avoids("C18.data-begin-empty-varying"))
        {
            ++rc.ctr->avoided_kf;
            return;
        }
        const auto* b = cv.data_begin();
        const auto* e = cv.data_end();
        if (b != e)
        {
            report(dom, "empty-observers", "data_begin() != data_end()");
            return;
        }
        if (b != nullptr)
        {
            Block* blk = g_heap.find_containing(b);
            if (!blk || blk->kind == BK_TABLE)
            {
                report(dom, "empty-observers", "data_begin() of an empty vector is neither null nor into/one past its block");
            }
        }
    }

    // -----------------------------------------------------------------------------------------
    // audit of an element slot
    // -----------------------------------------------------------------------------------------
    void audit_element(int s)
    {
        ESlot& sl = es[s];
        if (!sl.exists || sl.moved_from) return;
        ++rc.ctr->oracle_evals;
        E& e = sl.e();
        MElem got;
        std::vector<FieldSpan> sp;
        std::string why;
        if (c19_eshared[s])
        {
            read_elem(std::as_const(e), got, sp, Seq{});
        }
        else
        {
            read_elem(e, got, sp, Seq{});
            if (!elem_matches(got, sl.m, why))
            {
                report(rc.op_domain | pm(C12) | pm(C04) * (why.find("size") != std::string::npos), "value-mismatch", "element" + std::string(".") + why);
                return;
            }
        }
        MElem got2;
        std::vector<FieldSpan> sp2;
        read_elem(std::as_const(e), got2, sp2, Seq{});
        if (!elem_matches(got2, sl.m, why))
        {
            report(rc.op_domain | pm(C12) | pm(C04) * (why.find("size") != std::string::npos), "value-mismatch", "const element." + why);
            return;
        }
        Block* blk = g_heap.find_containing(reinterpret_cast<const void*>(sp[0].b));
        if (!blk)
        {
            report(pm(C02, C07, C12), "not-in-live-block", "element storage");
            return;
        }
        if (STATEFUL)
        {
            const int id = alloc_id_of(e.get_allocator());
            if (blk->alloc_id != id)
            {
                report(pm(C07, C08, C12), "owns-foreign-block",
                       "element block.alloc=" + std::to_string(blk->alloc_id) + " get_allocator=" + std::to_string(id));
            }
            if (id != sl.alloc_id)
            {
                report(pm(C08), "wrong-allocator",
                       "element get_allocator=" + std::to_string(id) + " expected=" + std::to_string(sl.alloc_id));
            }
        }
        std::uintptr_t cur = sp[0].b;
        std::vector<FieldSpan> expect;
        greedy(sp[0].b, sl.m, expect);
        for (std::size_t k = 0; k < N; ++k)
        {
            if (sp[k].b < cur) report(pm(C04), "order", "element field" + std::to_string(k));
            cur = sp[k].e;
            if (ALIGN_AS[k] && sp[k].b % ALIGN[k] != 0)
            {
                report(pm(C03), "misaligned",
                       "element field" + std::to_string(k) + " align=" + std::to_string(ALIGN[k]) +
                           " residue=" + std::to_string(sp[k].b % ALIGN[k]));
            }
            if (sp[k].b < reinterpret_cast<std::uintptr_t>(blk->base) ||
                sp[k].e > reinterpret_cast<std::uintptr_t>(blk->base) + blk->bytes)
            {
                report(pm(C02), "field-outside-block", "element field" + std::to_string(k));
            }
            if (expect[k].b != sp[k].b)
            {
                report(pm(C05), "layout-not-tight", "element field" + std::to_string(k));
            }
        }
    }

    // -----------------------------------------------------------------------------------------
    // world-level audit after every step
    // -----------------------------------------------------------------------------------------
    void collect_tracked(std::vector<std::uintptr_t>& held)
    {
        for (int s = 0; s < NV; ++s)
        {
            if (!vs[s].exists || vs[s].m.moved_from) continue;
            for (auto& el : vs[s].snap.el)
                for (std::size_t k = 0; k < N && k < el.size(); ++k)
                    if (F_TRACKED[k])
                        for (auto a = el[k].b; a < el[k].e; a += VSIZE[k]) held.push_back(a);
        }
    }

    void audit_world(int salt, bool all_paths)
    {
        for (int s = 0; s < NV && !rc.stop; ++s) audit_vector(s, salt, all_paths);
        std::vector<std::vector<FieldSpan>> espans(NE);
        for (int s = 0; s < NE && !rc.stop; ++s) audit_element(s);
        if (rc.stop) return;
        const Block* bad = nullptr;
        long off = 0;
        if (!g_heap.canaries_intact(bad, off))
        {
            report(pm(C02, C07) | rc.op_domain, "canary-smashed",
                   std::string("kind=") + KIND_NAMES[bad->kind] + (off < 0 ? " under" : " over"));
            return;
        }
        if constexpr (ANY_TRACKED)
        {
            // live Tracked objects inside heap blocks == logically held ones
            std::vector<std::uintptr_t> held;
            collect_tracked(held);
            for (int s = 0; s < NE; ++s)
            {
                if (!es[s].exists || es[s].moved_from) continue;
                std::vector<FieldSpan> sp;
                if (c19_eshared[s]) span_elem(std::as_const(es[s].e()), sp, Seq{});
                else span_elem(es[s].e(), sp, Seq{});
                for (std::size_t k = 0; k < N; ++k)
                    if (F_TRACKED[k])
                        for (auto a = sp[k].b; a < sp[k].e; a += VSIZE[k]) held.push_back(a);
            }
            std::sort(held.begin(), held.end());
            std::size_t in_heap = 0;
            for (auto& kv : g_ledger.live)
            {
                Block* b = g_heap.find_containing(reinterpret_cast<const void*>(kv.first));
                if (!b)
                {
                    if (const Block* fb = g_heap.find_freed_containing(reinterpret_cast<const void*>(kv.first)))
                    {
                        report(pm(C06), "alive-in-freed-block",
                               std::string("an object is still alive in a ") + KIND_NAMES[fb->kind] + " block that was deallocated");
                        return;
                    }
                    continue;
                }
                bool exempt = false;  // moved-from objects that a moved-from vector still owns (element-wise transfer)
                for (int s = 0; s < NV; ++s)
                    if (vs[s].exists && vs[s].m.moved_from && vs[s].m.moved_block == static_cast<int>(b->seq)) exempt = true;
                if (exempt) continue;
                ++in_heap;
                if (!std::binary_search(held.begin(), held.end(), kv.first))
                {
                    report(pm(C06), "live-not-held",
                           std::string("an object is alive in a ") + KIND_NAMES[b->kind] +
                               " block but not logically held (not destroyed, or constructed twice)");
                    return;
                }
            }
            if (in_heap != held.size())
            {
                report(pm(C06), "held-not-live", "a logically held object has no live lifetime");
            }
        }
    }

    // teardown: destroy everything that still exists, then nothing may remain
    void teardown()
    {
        rc.op_kind = OP_COUNT;
        rc.op_domain = 0;
        g_heap.begin_op(0, BK_DATA);
        for (int s = 0; s < NE; ++s)
            if (es[s].exists)
            {
                es[s].e().~E();
                es[s].exists = false;
            }
        for (int s = 0; s < NV; ++s)
            if (vs[s].exists)
            {
                vs[s].v().~V();
                vs[s].exists = false;
            }
        if (rc.stop) return;
        for (int i = 0; i < g_heap.nblocks; ++i)
        {
            const Block& b = g_heap.blocks[i];
            if (b.live)
            {
                report(pm(C07), "leak", std::string("kind=") + KIND_NAMES[b.kind] + " at-teardown");
            }
        }
        if constexpr (ANY_TRACKED)
        {
            for (auto& kv : g_ledger.live)
            {
                if (g_heap.find_any_containing(reinterpret_cast<const void*>(kv.first)))
                {
                    report(pm(C06), "never-destroyed", "object still alive after all containers were destroyed");
                    break;
                }
            }
        }
    }

#include "ops.inc"
#include "ops2.inc"
#include "ops3.inc"
#include "ops4.inc"
#include "ops5.inc"
#include "ops6.inc"
#include "ops7.inc"
};
}  // namespace sim
