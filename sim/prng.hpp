// Deterministic PRNG streams. One integer (VERIF_SEED) decides everything; every stream is derived
// from it by hashing, never shared, never advanced by logging or oracles.
#pragma once
#include <cstdint>
#include <cstddef>
#include <cstring>

namespace sim
{
inline constexpr std::uint64_t mix64(std::uint64_t z) noexcept
{
    z += 0x9e3779b97f4a7c15ull;
    z = (z ^ (z >> 30)) * 0xbf58476d1ce4e5b9ull;
    z = (z ^ (z >> 27)) * 0x94d049bb133111ebull;
    return z ^ (z >> 31);
}

inline constexpr std::uint64_t hash_str(const char* s) noexcept
{
    std::uint64_t h = 0xcbf29ce484222325ull;
    while (*s)
    {
        h ^= static_cast<unsigned char>(*s++);
        h *= 0x100000001b3ull;
    }
    return h;
}

inline constexpr std::uint64_t derive(std::uint64_t a, std::uint64_t b) noexcept { return mix64(a ^ mix64(b + 0x1234567)); }

inline constexpr std::uint64_t derive(std::uint64_t a, const char* tag) noexcept { return derive(a, hash_str(tag)); }

struct Rng
{
    std::uint64_t s;
    explicit constexpr Rng(std::uint64_t seed = 1) noexcept : s(seed) {}
    constexpr std::uint64_t next() noexcept
    {
        s += 0x9e3779b97f4a7c15ull;
        std::uint64_t z = s;
        z = (z ^ (z >> 30)) * 0xbf58476d1ce4e5b9ull;
        z = (z ^ (z >> 27)) * 0x94d049bb133111ebull;
        return z ^ (z >> 31);
    }
    // uniform in [0, n), n > 0 (modulo bias irrelevant here)
    constexpr std::uint64_t below(std::uint64_t n) noexcept { return n ? next() % n : 0; }
    constexpr bool chance(unsigned num, unsigned den) noexcept { return below(den) < num; }
    constexpr std::uint64_t range(std::uint64_t lo, std::uint64_t hi) noexcept { return lo + below(hi - lo + 1); }
};

// rolling FNV-1a over 64-bit words: the event-log fingerprint
struct Fnv
{
    std::uint64_t h = 0xcbf29ce484222325ull;
    void add(std::uint64_t v) noexcept
    {
        for (int i = 0; i < 8; ++i)
        {
            h ^= (v >> (8 * i)) & 0xff;
            h *= 0x100000001b3ull;
        }
    }
    void add_str(const char* s) noexcept
    {
        while (*s)
        {
            h ^= static_cast<unsigned char>(*s++);
            h *= 0x100000001b3ull;
        }
    }
};
}  // namespace sim
