#!/usr/bin/env python3
"""Sensitivity of the checks to the defects that were repaired in /repo: every "fix:" commit is reverted on its own in
a scratch copy of /repo/src (never in /repo) and the quick check of the property it is recorded under in
KNOWN_FINDINGS.txt must report a violation again.

  tools/revert_matrix.py [commit-prefix ...]      (default: all fix commits)
Prints one line per commit: REDETECTED / MISSED / CONFLICT (the reverse patch does not apply on top of the later fixes).
"""
import os
import re
import shutil
import subprocess
import sys
import tempfile

ROOT = os.path.dirname(os.path.dirname(os.path.abspath(__file__)))
sys.path.insert(0, os.path.join(ROOT, 'driver'))
import verif  # noqa: E402


def main():
    want = sys.argv[1:]
    entries = []
    for l in open(os.path.join(ROOT, 'KNOWN_FINDINGS.txt')):
        m = re.match(r'fixed: property=(C\d\d) ([0-9a-f]+) (.*)', l)
        if m:
            entries.append(m.groups())
    summary = []
    for prop, h, subj in entries:
        if want and not any(h.startswith(w) for w in want):
            continue
        rev = subprocess.run(['git', '-C', '/repo', 'diff', h, h + '^', '--', 'src'], stdout=subprocess.PIPE, text=True).stdout
        if not rev.strip():
            print('%s %s NO-SRC-CHANGE %s' % (h, prop, subj), flush=True)
            continue
        scratch = tempfile.mkdtemp(prefix='rrepo_')
        try:
            shutil.copytree('/repo/src', os.path.join(scratch, 'src'))
            pf = os.path.join(scratch, 'rev.diff')
            open(pf, 'w').write(rev)
            p = subprocess.run(['patch', '-p1', '-s', '-d', scratch, '-i', pf], stdout=subprocess.PIPE, stderr=subprocess.STDOUT, text=True)
            if p.returncode != 0:
                print('%s %s CONFLICT %s' % (h, prop, subj), flush=True)
                summary.append((h, prop, 'CONFLICT'))
                continue
            props = [prop] if prop in verif.CLAIMED else []
            # compile-surface defects (recorded under the not-applicable C20): any claimed check that builds the
            # affected configuration reports them through its build gate
            if not props:
                props = ['C09', 'C12', 'C01']
            env = dict(os.environ, VERIF_REPO=scratch, VERIF_EVIDENCE_DIR=os.path.join(scratch, 'evidence'),
                       VERIF_REPLAY_DIR=os.path.join(scratch, 'replays'))
            verdict = 'MISSED'
            detail = ''
            for pr in props:
                r = subprocess.run([os.path.join(ROOT, 'check'), pr, 'quick'], env=env, stdout=subprocess.PIPE, stderr=subprocess.STDOUT, text=True)
                lines = [l.strip() for l in r.stdout.splitlines() if l.startswith('VIOLATION') or l.startswith('  ')]
                if r.returncode == 1:
                    verdict = 'REDETECTED'
                    detail = '%s: %s' % (pr, ' | '.join(lines[:2])[:260])
                    break
                if r.returncode not in (0, 1):
                    detail = '%s exit=%d %s' % (pr, r.returncode, r.stdout[-300:].replace('\n', ' '))
            print('%s %s %s %s\n      %s' % (h, prop, verdict, subj, detail), flush=True)
            summary.append((h, prop, verdict))
        finally:
            shutil.rmtree(scratch, ignore_errors=True)
    print('SUMMARY: %d redetected, %d missed, %d conflict' % (sum(1 for s in summary if s[2] == 'REDETECTED'),
                                                            sum(1 for s in summary if s[2] == 'MISSED'),
                                                            sum(1 for s in summary if s[2] == 'CONFLICT')))


if __name__ == '__main__':
    main()
