// SimAlloc<T, Traits>: minimal standard allocator whose every decision is delegated to SimHeap.
#pragma once
#include "heap.hpp"

#include <memory>
#include <type_traits>

namespace sim
{
template <bool Pocca, bool Pocma, bool Pocs, bool AlwaysEqual, bool SocccDerive>
struct AllocTraits
{
    static constexpr bool POCCA = Pocca;
    static constexpr bool POCMA = Pocma;
    static constexpr bool POCS = Pocs;
    static constexpr bool ALWAYS_EQUAL = AlwaysEqual;
    static constexpr bool SOCCC_DERIVE = SocccDerive;
};

// select_on_container_copy_construction of a "derive" allocator: a pure function of the id
inline constexpr int soccc_derive(int id) noexcept { return id < 1000 ? id + 1000 : id; }

template <class Tr, bool = Tr::ALWAYS_EQUAL>
struct AllocState
{
    int id_ = 0;
    constexpr AllocState() = default;
    constexpr explicit AllocState(int id) noexcept : id_(id) {}
    constexpr int id() const noexcept { return id_; }
};

template <class Tr>
struct AllocState<Tr, true>
{
    constexpr AllocState() = default;
    constexpr explicit AllocState(int) noexcept {}
    constexpr int id() const noexcept { return 0; }
};

template <class T, class Tr>
struct SimAlloc : AllocState<Tr>
{
    using value_type = T;
    using propagate_on_container_copy_assignment = std::bool_constant<Tr::POCCA>;
    using propagate_on_container_move_assignment = std::bool_constant<Tr::POCMA>;
    using propagate_on_container_swap = std::bool_constant<Tr::POCS>;
    using is_always_equal = std::bool_constant<Tr::ALWAYS_EQUAL>;
    using Traits = Tr;
    template <class U>
    struct rebind
    {
        using other = SimAlloc<U, Tr>;
    };

    constexpr SimAlloc() = default;
    constexpr explicit SimAlloc(int id) noexcept : AllocState<Tr>(id) {}
    template <class U>
    constexpr SimAlloc(const SimAlloc<U, Tr>& other) noexcept : AllocState<Tr>(other.id())
    {
    }

    T* allocate(std::size_t n)
    {
        // a count whose byte size does not fit in size_t is passed on as "more than anything legitimate" (what
        // std::allocator answers with bad_array_new_length), never as its wrapped-around product
        const std::size_t bytes = n > static_cast<std::size_t>(-1) / sizeof(T) ? static_cast<std::size_t>(-1) : n * sizeof(T);
        return static_cast<T*>(g_heap.allocate(bytes, alignof(T), this->id(), std::is_same_v<T, std::size_t>));
    }

    void deallocate(T* p, std::size_t n) noexcept
    {
        g_heap.deallocate(p, n * sizeof(T), this->id(), Tr::ALWAYS_EQUAL);
    }

    SimAlloc select_on_container_copy_construction() const noexcept
    {
        if constexpr (Tr::SOCCC_DERIVE && !Tr::ALWAYS_EQUAL)
        {
            return SimAlloc(soccc_derive(this->id()));
        }
        else
        {
            return *this;
        }
    }

    template <class U>
    friend constexpr bool operator==(const SimAlloc& a, const SimAlloc<U, Tr>& b) noexcept
    {
        return a.id() == b.id();
    }
    template <class U>
    friend constexpr bool operator!=(const SimAlloc& a, const SimAlloc<U, Tr>& b) noexcept
    {
        return a.id() != b.id();
    }
};

// allocator kinds (C07/C08)
using TrAE = AllocTraits<false, false, false, true, false>;     // stateless, always equal
using TrNone = AllocTraits<false, false, false, false, false>;  // stateful, propagates nothing
using TrAll = AllocTraits<true, true, true, false, false>;      // stateful, propagates everything
using TrNoneD = AllocTraits<false, false, false, false, true>;  // ... SOCCC derives a new instance
using TrAllD = AllocTraits<true, true, true, false, true>;
}  // namespace sim
