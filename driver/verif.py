#!/usr/bin/env python3
"""Driver: build cache, worker pool, violation gate (re-run, minimise, replay), known findings, evidence.

  ./check <C01..C19> quick|thorough
  ./check replay <file>
  ./check build [quick|thorough]
  ./check selftest determinism
Standard library only.  Exit status: 0 held, 1 VIOLATION printed, 2 harness error.
"""
import concurrent.futures as cf
import fcntl
import hashlib
import json
import os
import re
import shutil
import struct
import subprocess
import sys
import tempfile
import time

ROOT = os.path.dirname(os.path.dirname(os.path.abspath(__file__)))
sys.path.insert(0, os.path.join(ROOT, 'gen'))
import configs as cfgmod  # noqa: E402

REPO = os.environ.get('VERIF_REPO', '/repo')
BUILD = os.path.join(ROOT, 'build')
JOBS = int(os.environ.get('VERIF_JOBS', '16'))
CLAIMED = ['C01', 'C02', 'C03', 'C04', 'C05', 'C06', 'C07', 'C08', 'C09', 'C10', 'C11', 'C12', 'C13', 'C14', 'C16',
           'C17', 'C18', 'C19']

FLAVOURS = {
    # shipped optimisation level and NDEBUG: assume_aligned / restrict / malloc attributes act as for users
    'fence': ['g++', '-std=c++17', '-O2', '-DNDEBUG', '-g0', '-fno-strict-aliasing'],
    'fence20': ['g++', '-std=c++20', '-O2', '-DNDEBUG', '-g0', '-fno-strict-aliasing'],
    # library asserts enabled, poisoned red zones; alignment checking off (alignment 1 is the documented default)
    'asan': ['clang++', '-std=c++17', '-O1', '-g', '-fsanitize=address,undefined', '-fno-sanitize=alignment,nonnull-attribute,returns-nonnull-attribute',
             '-fno-sanitize-recover=undefined', '-fno-omit-frame-pointer'],
    # C19 only: real threads released one at a time by the seeded scheduler; only the library is instrumented
    'tsan': ['clang++', '-std=c++17', '-O1', '-g', '-fsanitize=thread', '-DSIM_TSAN', '-pthread',
             '-fsanitize-ignorelist=' + os.path.join(ROOT, 'sim', 'tsan_ignore.txt')],
}

QUICK_RUNS = int(os.environ.get('VERIF_QUICK_RUNS', '1500'))
THOROUGH_RUNS = int(os.environ.get('VERIF_THOROUGH_RUNS', '40000'))


def log(*a):
    print(*a, flush=True)


# ------------------------------------------------------------------------------------------------
# known findings
# ------------------------------------------------------------------------------------------------
def load_known():
    out = []
    path = os.path.join(ROOT, 'KNOWN_FINDINGS.txt')
    if not os.path.exists(path):
        return out
    for line in open(path):
        line = line.strip()
        if not line.startswith('known:'):
            continue
        m = re.match(r'known:\s+property=(\S+)\s+kind=(\S+)\s+key=(\S+)\s+replay=(\S+)\s+(.*)', line)
        if m:
            out.append({'property': m.group(1), 'kind': m.group(2), 'key': m.group(3), 'replay': m.group(4),
                        'text': m.group(5)})
    return out


# ------------------------------------------------------------------------------------------------
# build cache
# ------------------------------------------------------------------------------------------------
def tree_hash(paths):
    h = hashlib.sha256()
    for base in paths:
        for d, _, files in sorted(os.walk(base)):
            for f in sorted(files):
                p = os.path.join(d, f)
                h.update(p.encode())
                with open(p, 'rb') as fh:
                    h.update(fh.read())
    return h.hexdigest()


_SRC_HASH = None


def src_hash():
    global _SRC_HASH
    if _SRC_HASH is None:
        _SRC_HASH = tree_hash([os.path.join(REPO, 'src', 'cntgs'), os.path.join(ROOT, 'sim')])[:20]
    return _SRC_HASH


def build_dir():
    d = os.path.join(BUILD, src_hash())
    os.makedirs(d, exist_ok=True)
    return d


def prune_cache():
    if not os.path.isdir(BUILD):
        return
    keep = src_hash()
    entries = [e for e in os.listdir(BUILD) if e != keep and os.path.isdir(os.path.join(BUILD, e))]
    entries.sort(key=lambda e: os.path.getmtime(os.path.join(BUILD, e)))
    for e in entries[:-int(os.environ.get('VERIF_CACHE_KEEP', '4'))]:  # keep a few recent other trees (mutants under test)
        shutil.rmtree(os.path.join(BUILD, e), ignore_errors=True)


def build_one(cfg, flavour):
    """Returns (binary path or None, first diagnostic)."""
    d = build_dir()
    key = hashlib.sha256((cfg['params'] + '|' + cfg['traits'] + '|' + flavour + '|' + ' '.join(FLAVOURS[flavour])).encode()).hexdigest()[:10]
    out = os.path.join(d, '%s.%s.%s' % (cfg['name'], flavour, key))
    err = out + '.err'
    if os.path.exists(out):
        return out, ''
    if os.path.exists(err):
        return None, open(err).read()
    lock = open(out + '.lock', 'w')
    fcntl.flock(lock, fcntl.LOCK_EX)
    try:
        if os.path.exists(out):
            return out, ''
        if os.path.exists(err):
            return None, open(err).read()
        hdr = os.path.join(d, 'cfg_%s.hpp' % cfg['name'])
        htmp = '%s.tmp%d.%s' % (hdr, os.getpid(), flavour)
        with open(htmp, 'w') as fh:
            fh.write(cfgmod.header_text(cfg))
        os.replace(htmp, hdr)
        tmp = out + '.tmp%d' % os.getpid()
        cmd = FLAVOURS[flavour] + ['-I' + os.path.join(REPO, 'src'), '-I' + ROOT, '-DCFG_HEADER="%s"' % hdr,
                                   os.path.join(ROOT, 'sim', 'main.cpp'), '-o', tmp]
        p = subprocess.run(cmd, stdout=subprocess.PIPE, stderr=subprocess.STDOUT, text=True)
        if p.returncode != 0:
            diag = '\n'.join([l for l in p.stdout.splitlines() if 'error' in l][:3]) or p.stdout[:2000]
            with open(err, 'w') as fh:
                fh.write(' '.join(cmd) + '\n' + diag)
            return None, diag
        os.replace(tmp, out)
        return out, ''
    finally:
        fcntl.flock(lock, fcntl.LOCK_UN)
        lock.close()


def build_all(pairs):
    """pairs: list of (cfg, flavour) -> dict (name, flavour) -> (path, diag)"""
    res = {}
    with cf.ThreadPoolExecutor(max_workers=JOBS) as ex:
        futs = {ex.submit(build_one, c, f): (c['name'], f) for c, f in pairs}
        for fu in cf.as_completed(futs):
            res[futs[fu]] = fu.result()
    return res


# ------------------------------------------------------------------------------------------------
# which configurations / flavours a property's check uses
# ------------------------------------------------------------------------------------------------
def configs_for(prop, tier, seed):
    cs = cfgmod.curated() + cfgmod.layout_generated(seed, int(os.environ.get('VERIF_LAYOUT_GENERATED', '28' if tier == 'thorough' else '14')))
    if tier == 'thorough':
        cs = cs + cfgmod.generated(seed, int(os.environ.get('VERIF_GENERATED', '48')))

    def want(c):
        tags = set(c['tags'])
        if prop == 'C03':
            return 'alignas' in tags and 'a8' not in tags
        if prop == 'C06':
            return 'nontrivial' in tags
        if prop == 'C08':
            return 'stateful' in tags
        if prop in ('C13', 'C14'):
            return 'comparable' in tags and 'a8' not in tags
        if 'layout' in tags:
            return prop in ('C02', 'C03', 'C04', 'C05')
        if 'a8' in tags:
            return prop in ('C07', 'C09', 'C16', 'C17')
        return True
    return [c for c in cs if want(c)]


def flavours_for(prop, tier, cfg, seed, index):
    fl = ['fence20' if (index + seed) % 2 else 'fence']
    if prop == 'C19':
        if tier == 'thorough':
            return ['fence', 'asan', 'tsan']
        return fl + (['tsan'] if (index + seed) % 3 == 1 or 'real' in cfg['tags'] else [])
    if tier == 'thorough':
        fl = ['fence', 'fence20', 'asan']
    elif 'real' in cfg['tags'] or (index + seed) % 3 == 0:
        fl.append('asan')
    return fl


# ------------------------------------------------------------------------------------------------
# running workers
# ------------------------------------------------------------------------------------------------
R_LINE = re.compile(r'^R (-?\d+) (\w+) (.*)$')
C_LINE = re.compile(r'^CRASH run=(-?\d+) step=(-?\d+) op=(\S+) props=(\S+) class=(\S+)\s*(.*)$')


def parse_fields(s):
    d = {}
    # key=... is always last and may contain spaces
    if ' key=' in s or s.startswith('key='):
        head, _, key = s.partition('key=')
        d['key'] = key.strip()
        s = head
    for tok in s.split():
        if '=' in tok:
            k, _, v = tok.partition('=')
            d[k] = v
    return d


def signature(rec):
    """Violation signature: never contains addresses, indices, run numbers or step numbers."""
    key = rec.get('sig') or rec.get('key', '')
    key = re.sub(r'\d+', '#', key)
    return '%s|%s|%s|%s' % (rec.get('status'), rec.get('class'), rec.get('op'), key)


def run_worker(binary, args, timeout=int(os.environ.get('VERIF_WORKER_TIMEOUT', '900'))):
    try:
        p = subprocess.run([binary] + args, stdout=subprocess.PIPE, stderr=subprocess.PIPE, text=True, timeout=timeout,
                           errors='replace')
        return p.returncode, p.stdout, p.stderr
    except subprocess.TimeoutExpired as e:
        return -9, (e.stdout or b'').decode(errors='replace') if isinstance(e.stdout, bytes) else (e.stdout or ''), 'TIMEOUT'


def parse_output(stdout, stderr, prop, rc=0):
    """-> (records, stats or None, crash record or None)"""
    recs, stats, crash = [], None, None
    last_started = -1
    for line in stdout.splitlines():
        if line.startswith('S '):
            last_started = int(line[2:])
            continue
        m = R_LINE.match(line)
        if m:
            d = parse_fields(m.group(3))
            d['run'] = int(m.group(1))
            d['status'] = m.group(2)
            recs.append(d)
            continue
        m = C_LINE.match(line)
        if m:
            d = parse_fields(m.group(6))
            d.update(run=int(m.group(1)), step=m.group(2), op=m.group(3), props=m.group(4))
            d['class'] = 'crash:' + m.group(5)
            d['key'] = ' '.join('%s=%s' % (k, d[k]) for k in ('kind', 'state', 'side') if k in d)
            if m.group(5) == 'abort':
                am = re.search(r'Assertion `([^\']*)\' failed', stderr)
                if am:
                    d['key'] = 'assert ' + am.group(1)
            d['status'] = 'viol' if prop in d['props'].split(',') else 'blocked'
            crash = d
            continue
        if line.startswith('STATS '):
            try:
                stats = json.loads(line[6:])
            except ValueError:
                pass
    if crash is None and stats is None and rc == 78:
        m = re.search(r'SUMMARY: ThreadSanitizer: ([^\n]*)', stderr or '')
        msg = re.sub(r'0x[0-9a-f]+', 'ADDR', m.group(1)) if m else 'thread sanitizer report'
        msg = re.sub(r'\([^)]*\)', '', msg)  # module paths, build ids
        msg = re.sub(r'^(data race) \S+ in ', r'\1 in ', msg).strip()
        msg = re.sub(r'\s+', ' ', msg)
        crash = {'run': last_started, 'step': '?', 'op': 'c19', 'props': 'C19', 'class': 'crash:tsan-data-race',
                 'key': msg[:160], 'status': 'viol' if prop == 'C19' else 'blocked'}
    if crash is None and stats is None and rc == 77:
        # a sanitizer runtime ended the process without going through our report callback (UBSan)
        m = re.search(r'runtime error: ([^\n]*)', stderr or '')
        msg = re.sub(r'0x[0-9a-f]+', 'ADDR', m.group(1)) if m else 'sanitizer exit'
        crash = {'run': last_started, 'step': '?', 'op': '?', 'props': 'C02,' + prop, 'class': 'crash:ubsan',
                 'key': msg[:160], 'status': 'viol'}
    return recs, stats, crash


def run_chunk(job):
    """One worker process over [from, from+count); restarts after crashes. Returns dict."""
    binary, prop, seed, frm, count, thorough, avoid, known, cases_path = job
    end = frm + count
    out = {'records': [], 'stats': [], 'errors': []}
    cur = frm
    guard = 0
    hangs = 0
    # a chunk is abandoned after a dozen crashes or two hangs: the candidates it produced are evidence enough, and a
    # broken library must not be able to stall a check for hours
    while cur < end and guard < 12 and hangs < 2:
        guard += 1
        args = ['run', '--prop', prop, '--seed', str(seed), '--from', str(cur), '--count', str(end - cur)]
        if thorough:
            args.append('--thorough')
        if avoid:
            args += ['--avoid', ','.join(avoid)]
        if known:
            args += ['--known', ','.join(known)]
        cp = None
        if cases_path:
            cp = '%s.%d' % (cases_path, cur)
            args += ['--cases', cp]
        rc, so, se = run_worker(binary, args)
        recs, stats, crash = parse_output(so, se, prop, rc)
        for r in recs:
            r['proc_from'] = cur
        if crash:
            crash['proc_from'] = cur
        out['records'] += recs
        if stats:
            out['stats'].append(stats)
        if cp and os.path.exists(cp):
            out.setdefault('case_files', []).append(cp)
        if crash:
            out['records'].append(crash)
            if crash.get('class') == 'crash:hang':
                hangs += 1
            cur = crash['run'] + 1
            continue
        if rc != 0 or stats is None:
            out['errors'].append('worker exit %s without STATS: %s %s: %s' % (rc, os.path.basename(binary), ' '.join(args), (se or so)[-400:]))
            break
        break
    return out


def exec_plan(binary, prop, plan_lines, env, env2, avoid, known):
    """Run an explicit plan in a fresh process. -> record dict (status ok/viol/blocked/capped)"""
    fd, path = tempfile.mkstemp(prefix='verifplan', suffix='.txt')
    with os.fdopen(fd, 'w') as fh:
        fh.write('\n'.join(plan_lines) + '\n')
    try:
        args = ['exec', '--prop', prop, '--plan', path, '--env', str(env)]
        if env2:
            args += ['--env2', str(env2)]
        if avoid:
            args += ['--avoid', ','.join(avoid)]
        if known:
            args += ['--known', ','.join(known)]
        rc, so, se = run_worker(binary, args, timeout=120)
        recs, _, crash = parse_output(so, se, prop, rc)
        if crash:
            return crash
        if recs:
            return recs[-1]
        return {'status': 'error', 'class': 'no-output', 'key': (se or so)[-300:], 'op': '?'}
    finally:
        os.unlink(path)


def get_plan(binary, prop, seed, run, thorough, failk=0):
    args = ['plan', '--prop', prop, '--seed', str(seed), '--run', str(run)] + (['--thorough'] if thorough else [])
    if failk:
        args += ['--failk', str(failk)]
    rc, so, se = run_worker(binary, args, timeout=60)
    lines = so.splitlines()
    env = int(re.search(r'env=(\d+)', lines[0]).group(1))
    env2 = int(re.search(r'env2=(\d+)', lines[0]).group(1))
    return [l for l in lines[1:] if l.strip()], env, env2


def run_history(binary, prop, seed, frm, rec, thorough, avoid, known):
    """Runs frm..rec['run'] in ONE fresh process (as the exploring worker did) and returns the record of the last run."""
    run = rec['run']
    args = ['run', '--prop', prop, '--seed', str(seed), '--from', str(frm), '--count', str(run - frm + 1)]
    if thorough:
        args.append('--thorough')
    if avoid:
        args += ['--avoid', ','.join(avoid)]
    if known:
        args += ['--known', ','.join(known)]
    rc, so, se = run_worker(binary, args)
    recs, _, crash = parse_output(so, se, prop, rc)
    if crash is not None and crash.get('run') == run:
        return crash
    same = [r for r in recs if r['run'] == run and str(r.get('failk', '')) == str(rec.get('failk', ''))]
    if same:
        return same[-1]
    return {'status': 'ok', 'class': None, 'op': None}


def history_gate(prop, cfg, flavour, binary, seed, rec, thorough, avoid, known, tier, sig):
    """A violation that a fresh process does not show for the run alone may depend on what the same process did before
    (state the library keeps outside its objects). Re-run the worker's own history; if that reproduces, shrink the
    history to the shortest suffix that still does."""
    first = int(rec.get('proc_from', rec['run']))
    run = rec['run']
    if first >= run:
        return None, None

    def reproduces(frm):
        r = run_history(binary, prop, seed, frm, rec, thorough, avoid, known)
        return r if (r.get('status') == 'viol' and signature(r) == sig) else None

    if not reproduces(first) or not reproduces(first):
        return None, None
    best = first
    step = 1
    while run - step > first:
        if reproduces(run - step):
            best = run - step
            break
        step *= 2
    final = reproduces(best)
    if not final:
        best, final = first, reproduces(first)
        if not final:
            return None, None
    rdir = os.environ.get('VERIF_REPLAY_DIR', os.path.join(ROOT, 'replays'))
    os.makedirs(rdir, exist_ok=True)
    path = os.path.join(rdir, '%s-%s-%s-%d-%d-history.json' % (prop, cfg['name'], flavour, seed, run))
    doc = {'kind': 'history', 'property': prop, 'config': cfg, 'flavour': flavour, 'tier': tier, 'seed': seed,
           'from': best, 'run': run, 'failk': rec.get('failk'), 'thorough': thorough, 'avoid': avoid, 'known': known,
           'note': 'the run alone does not violate the property in a fresh process; runs %d..%d executed in one process do: '
                   'the library carries state from earlier vectors to later ones (e.g. a function-local static)' % (best, run),
           'expect': {'signature': sig, 'class': final.get('class'), 'op': final.get('op'), 'key': final.get('key'),
                      'props': final.get('props')}}
    with open(path, 'w') as fh:
        json.dump(doc, fh, indent=1)
    return path, 'needs runs %d..%d in one process' % (best, run)


def differential(prop):
    return prop in ('C13', 'C14', 'C18')


def alt_env(env):
    return (env * 6364136223846793005 + 1442695040888963407) % (1 << 63) or 7


# ------------------------------------------------------------------------------------------------
# gate: reproduce, minimise, write replay file, replay once more
# ------------------------------------------------------------------------------------------------
def strip_faults(plan_lines):
    out = []
    for l in plan_lines:
        t = l.split()
        t[1] = '0'
        out.append(' '.join(t))
    return out


def minimise(binary, prop, plan, env, env2, avoid, known, sig, budget=400):
    """ddmin over steps, then per-step simplification, keeping the same signature."""
    tries = [0]
    deadline = time.time() + float(os.environ.get('VERIF_MINIMISE_SECONDS', '150'))

    def same(p):
        if tries[0] >= budget or not p or time.time() > deadline:
            return False
        tries[0] += 1
        r = exec_plan(binary, prop, p, env, env2, avoid, known)
        return r.get('status') == 'viol' and signature(r) == sig

    cur = list(plan)
    if cur and cur[0].startswith('#c19'):
        # the plan of a C19 run is its seed; minimise the length of the schedule prefix (binary search)
        m = re.match(r'#c19 rs=(\d+) maxsteps=(\d+) thorough=(\d)', cur[0])
        lo, hi = 0, 200
        mk = lambda k: ['#c19 rs=%s maxsteps=%d thorough=%s' % (m.group(1), k, m.group(3))]  # noqa: E731
        if not same(mk(hi)):
            return cur, tries[0]
        while lo + 1 < hi:
            mid = (lo + hi) // 2
            if same(mk(mid)):
                hi = mid
            else:
                lo = mid
        return mk(hi), tries[0]
    n = 2
    while len(cur) >= 2 and tries[0] < budget:
        chunk = max(1, len(cur) // n)
        reduced = False
        for i in range(0, len(cur), chunk):
            cand = cur[:i] + cur[i + chunk:]
            if cand and same(cand):
                cur = cand
                n = max(n - 1, 2)
                reduced = True
                break
        if not reduced:
            if chunk == 1:
                break
            n = min(n * 2, len(cur))
    # per-step simplification: drop fault attachments, shrink raw arguments
    for i in range(len(cur)):
        t = cur[i].split()
        if t[1] != '0':
            cand = cur[:i] + [' '.join([t[0], '0'] + t[2:])] + cur[i + 1:]
            if same(cand):
                cur = cand
                t = cur[i].split()
        for j in range(2, len(t)):
            for v in ('0', '1', '2'):
                if t[j] != v and int(t[j]) > int(v):
                    t2 = list(t)
                    t2[j] = v
                    cand = cur[:i] + [' '.join(t2)] + cur[i + 1:]
                    if same(cand):
                        cur = cand
                        t = t2
                        break
    return cur, tries[0]


def gate(prop, cfg, flavour, binary, seed, rec, thorough, avoid, known, tier):
    """-> (replay path or None, note). None means: does not reproduce (harness error) or not attributable."""
    if rec.get('run', -1) < 0:
        return None, 'no run index'
    plan, env, env2 = get_plan(binary, prop, seed, rec['run'], thorough, int(rec.get('failk', 0) or 0))
    sig = signature(rec)
    # 1. same run in a fresh process, twice
    envs = (env, env2) if differential(prop) else (env, 0)
    r1 = exec_plan(binary, prop, plan, envs[0], envs[1], avoid, known)
    r2 = exec_plan(binary, prop, plan, envs[0], envs[1], avoid, known)
    varies = False
    if signature(r1) != sig or signature(r2) != sig or r1.get('hash') != r2.get('hash'):
        # Memory corruption of real value types (std::string, unique_ptr) manifests through the process's own malloc
        # and may differ between processes; the run is still believed if every fresh execution violates the property.
        if r1.get('status') == 'viol' and r2.get('status') == 'viol':
            varies = signature(r1) != signature(r2)
            sig = signature(r1)
        else:
            hp, hnote = history_gate(prop, cfg, flavour, binary, seed, rec, thorough, avoid, known, tier, sig)
            if hp:
                return hp, hnote
            return None, 'NOT-REPRODUCED expected %s got %s / %s' % (sig, signature(r1), signature(r2))
    # C17: the violation must depend on an injected failure
    if prop == 'C17':
        r3 = exec_plan(binary, prop, strip_faults(plan), envs[0], envs[1], avoid, known)
        if r3.get('status') == 'viol' and signature(r3) == sig:
            return 'UNATTRIBUTABLE', 'reproduces without any injected failure: not a C17 violation'
    # 2. minimise
    small, tries = minimise(binary, prop, plan, envs[0], envs[1], avoid, known, sig)
    # 3. write + final replay
    rdir = os.environ.get('VERIF_REPLAY_DIR', os.path.join(ROOT, 'replays'))
    os.makedirs(rdir, exist_ok=True)
    path = os.path.join(rdir, '%s-%s-%s-%d-%d.json' % (prop, cfg['name'], flavour, seed, rec['run']))
    final = exec_plan(binary, prop, small, envs[0], envs[1], avoid, known)
    if signature(final) != sig and not (varies and final.get('status') == 'viol'):
        return None, 'NOT-REPRODUCED after minimisation'
    doc = {'kind': 'plan', 'property': prop, 'config': cfg, 'flavour': flavour, 'tier': tier, 'seed': seed,
           'run': rec['run'], 'env': envs[0], 'env2': envs[1], 'avoid': avoid, 'known': known, 'plan': small,
           'original_steps': len(plan), 'minimiser_reruns': tries, 'manifestation_varies': varies,
           'expect': {'signature': sig, 'class': final.get('class'), 'op': final.get('op'), 'key': final.get('key'),
                      'props': final.get('props'), 'hash': final.get('hash')}}
    with open(path, 'w') as fh:
        json.dump(doc, fh, indent=1)
    return path, 'ok'


def replay_file(path, quiet=False):
    doc = json.load(open(path))
    prop = doc['property']
    if doc.get('kind') == 'build-gate':
        binary, diag = build_one(doc['config'], doc['flavour'])
        if binary is None:
            if not quiet:
                log('VIOLATION property=%s replay=%s' % (prop, path))
                log(diag)
            return 1, {'class': 'build-gate'}
        return 0, {}
    binary, diag = build_one(doc['config'], doc['flavour'])
    if binary is None:
        log('cannot build %s: %s' % (doc['config']['name'], diag))
        return 2, {}
    if doc.get('kind') == 'history':
        rec = {'run': doc['run'], 'failk': doc.get('failk')}
        r = run_history(binary, prop, doc['seed'], doc['from'], rec, doc.get('thorough', False), doc.get('avoid', []), doc.get('known', []))
        if r.get('status') == 'viol' and signature(r) == doc['expect']['signature']:
            if not quiet:
                log('VIOLATION property=%s replay=%s' % (prop, path))
                log('  %s op=%s %s (runs %d..%d in one process)' % (r.get('class'), r.get('op'), r.get('key'), doc['from'], doc['run']))
            return 1, r
        if not quiet:
            log('replay does not violate on this tree: %s' % signature(r))
        return 0, r
    r = exec_plan(binary, prop, doc['plan'], doc['env'], doc.get('env2', 0), doc.get('avoid', []), doc.get('known', []))
    if r.get('status') == 'viol' and (signature(r) == doc['expect']['signature'] or doc.get('manifestation_varies')):
        if not quiet:
            log('VIOLATION property=%s replay=%s' % (prop, path))
            log('  %s op=%s %s' % (r.get('class'), r.get('op'), r.get('key')))
        return 1, r
    if not quiet:
        log('replay does not violate on this tree: %s' % signature(r))
    return 0, r


# ------------------------------------------------------------------------------------------------
# one check
# ------------------------------------------------------------------------------------------------
def merge_stats(acc, st):
    for k, v in st.items():
        if isinstance(v, dict):
            d = acc.setdefault(k, {})
            for kk, vv in v.items():
                d[kk] = d.get(kk, 0) + vv
        elif isinstance(v, (int, float)):
            acc[k] = acc.get(k, 0) + v


def check(prop, tier):
    t0 = time.time()
    seed = int(os.environ.get('VERIF_SEED', '1'))
    thorough = tier == 'thorough'
    prune_cache()
    known_all = load_known()
    avoid = sorted({k['key'] for k in known_all if k['kind'] == 'trigger'})
    known_sigs = sorted({k['key'] for k in known_all if k['kind'] == 'signature'})
    cfgs = configs_for(prop, tier, seed)
    pairs = []
    for i, c in enumerate(cfgs):
        for f in flavours_for(prop, tier, c, seed, i):
            pairs.append((c, f))
    log('[%s %s] seed=%d configs=%d binaries=%d tree=%s' % (prop, tier, seed, len(cfgs), len(pairs), src_hash()))
    built = build_all(pairs)
    violations = []  # (replay path, text)
    harness_errors = []
    for (c, f) in pairs:
        path, diag = built[(c['name'], f)]
        if path is None:
            rdir = os.environ.get('VERIF_REPLAY_DIR', os.path.join(ROOT, 'replays'))
            os.makedirs(rdir, exist_ok=True)
            rp = os.path.join(rdir, '%s-%s-%s-build.json' % (prop, c['name'], f))
            json.dump({'kind': 'build-gate', 'property': prop, 'config': c, 'flavour': f, 'diagnostic': diag},
                      open(rp, 'w'), indent=1)
            violations.append((rp, 'configuration %s (%s) does not compile: %s' % (c['name'], f, diag.splitlines()[-1][:300] if diag else '')))
    t_build = time.time() - t0
    runs_per = THOROUGH_RUNS if thorough else QUICK_RUNS
    tmpdir = tempfile.mkdtemp(prefix='verif_cases_')
    jobs = []
    for (c, f) in pairs:
        path, _ = built[(c['name'], f)]
        if path is None:
            continue
        n = runs_per if f.startswith('fence') else max(200, runs_per // 5)
        chunk = max(250, n // 4)
        for frm in range(0, n, chunk):
            jobs.append(((c, f), (path, prop, seed, frm, min(chunk, n - frm), thorough, avoid, known_sigs,
                                  os.path.join(tmpdir, '%s.%s.%d' % (c['name'], f, frm)))))
    agg = {}
    cand = {}  # signature -> (cfg, flavour, binary, rec)
    blocked = {}
    case_files = []
    per_cfg_runs = {}
    with cf.ThreadPoolExecutor(max_workers=JOBS) as ex:
        futs = {ex.submit(run_chunk, j[1]): j for j in jobs}
        for fu in cf.as_completed(futs):
            (c, f), job = futs[fu]
            res = fu.result()
            for st in res['stats']:
                merge_stats(agg, st)
                per_cfg_runs[c['name']] = per_cfg_runs.get(c['name'], 0) + st.get('runs', 0)
            harness_errors += res['errors']
            case_files += res.get('case_files', [])
            for rec in res['records']:
                if rec['status'] == 'viol':
                    s = signature(rec) + '|' + c['name']
                    if s not in cand or rec['run'] < cand[s][3]['run']:
                        cand[s] = (c, f, job[0], rec)
                elif rec['status'] == 'blocked':
                    s = '%s %s op=%s' % (rec.get('props'), rec.get('class'), rec.get('op'))
                    blocked[s] = blocked.get(s, 0) + 1
    # distinct non-trivial cases
    distinct = set()
    for p in case_files:
        try:
            data = open(p, 'rb').read()
            distinct.update(struct.unpack('<%dQ' % (len(data) // 8), data))
        except OSError:
            pass
    shutil.rmtree(tmpdir, ignore_errors=True)
    # gate the candidates: one per distinct signature (over all configs), at most 6
    by_sig = {}
    for s, v in sorted(cand.items()):
        by_sig.setdefault(signature(v[3]), v)
    unattributable = 0
    for sig, (c, f, binary, rec) in list(by_sig.items())[:6]:
        path, note = gate(prop, c, f, binary, seed, rec, thorough, avoid, known_sigs, tier)
        if path == 'UNATTRIBUTABLE':
            unattributable += 1
            blocked['(not attributable to %s) %s' % (prop, sig)] = blocked.get(sig, 0) + 1
            continue
        if path is None:
            harness_errors.append('%s %s run=%s: %s' % (c['name'], f, rec.get('run'), note))
            continue
        violations.append((path, '%s op=%s %s [%s %s run=%d]%s' % (rec.get('class'), rec.get('op'), rec.get('key'), c['name'], f, rec['run'],
                                                                   '' if note == 'ok' else ' (' + note + ')')))
    # known findings of this property: replay each committed replay file
    kf_lines = []
    for k in known_all:
        if k['property'] != prop:
            continue
        rp = os.path.join(ROOT, k['replay'])
        rc, r = replay_file(rp, quiet=True) if os.path.exists(rp) else (2, {})
        if rc == 1:
            kf_lines.append('KNOWN-FINDING: property=%s %s [%s]' % (prop, k['text'], k['key']))
        else:
            log('NOTE: known finding %s no longer reproduces from %s (entry kept; edit KNOWN_FINDINGS.txt by hand)' % (k['key'], k['replay']))
    for l in kf_lines:
        log(l)
    wall = time.time() - t0
    samples = sample_plans(prop, seed, thorough, pairs, built)
    write_evidence(prop, tier, seed, wall, t_build, agg, len(distinct), cfgs, pairs, built, blocked, violations,
                   harness_errors, kf_lines, samples, avoid, known_sigs, per_cfg_runs, unattributable)
    return finish(prop, violations, harness_errors)


def finish(prop, violations, harness_errors):
    for e in harness_errors[:10]:
        log('HARNESS-ERROR: ' + e)
    if violations:
        for path, text in violations:
            log('VIOLATION property=%s replay=%s' % (prop, path))
            log('  ' + text)
        return 1
    if harness_errors:
        return 2
    log('[%s] held on everything explored' % prop)
    return 0


def sample_plans(prop, seed, thorough, pairs, built):
    out = []
    for (c, f) in pairs[:2]:
        path, _ = built[(c['name'], f)]
        if path is None:
            continue
        try:
            plan, env, _ = get_plan(path, prop, seed, 0, thorough)
            out.append({'config': c['name'], 'params': c['params'], 'allocator': c['traits'], 'flavour': f, 'run': 0,
                        'env_seed': env, 'plan': plan[:40]})
        except Exception as e:  # noqa: BLE001
            out.append({'config': c['name'], 'error': str(e)})
    return out


RULES = {
    'default': 'seeded plans (swarm profile per property) over every configuration; a case is (property focus, op kind, '
               'abstract state before the step: size, capacity, moved-from flag, element size classes, fixed sizes; plus '
               'op-specific facets such as fault fired / allocator relation / source form); only steps whose subject '
               'operation actually executed on the real library and was audited count (skipped ops do not); distinct = '
               'number of distinct 64-bit hashes of these tuples merged over all workers and configurations',
}


def write_evidence(prop, tier, seed, wall, t_build, agg, distinct, cfgs, pairs, built, blocked, violations, errors,
                   kf_lines, samples, avoid, known_sigs, per_cfg_runs, unattributable, extra=None):
    runs = int(agg.get('runs', 0))
    run_wall = max(wall - t_build, 1e-6)
    level = 'fault_enumeration' if prop == 'C17' else 'exploration'
    cov = {
        'evaluations': max(runs, 1) if runs else 0,
        'distinct_nontrivial': distinct,
        'rule': RULES['default'],
        'samples': samples,
        'steps': int(agg.get('steps', 0)),
        'oracle_evaluations': int(agg.get('oracle_evals', 0)),
        'runs_per_hour': int(runs / run_wall * 3600),
        'simulated_time': 'n/a (no clock, timer or deadline exists in the system under test; progress is counted in steps)',
        'faults_fired': {
            'F1_alloc_failure': int(agg.get('faults_fired', 0)),
            'F2_min_align_base': int(agg.get('min_align_bases', 0)),
            'F3_fence_right': int(agg.get('placements', {}).get('fence_right', 0)),
            'F3_fence_left': int(agg.get('placements', {}).get('fence_left', 0)),
            'F4_junk_fill': int(agg.get('allocs', 0)) - int(agg.get('placements', {}).get('reuse_stale', 0)),
            'F5_stale_reuse': int(agg.get('placements', {}).get('reuse_stale', 0)),
            'F6_quarantine_or_stash_on_free': int(agg.get('frees', 0)),
            'F8_zero_size_request': int(agg.get('placements', {}).get('zero_size', 0)),
            'F10_value_copy_constructor_throw': int(agg.get('value_throws', 0)),
        },
        'placements': agg.get('placements', {}),
        'ops_executed': agg.get('ops', {}),
        'reach_probes': agg.get('probes', {}),
        'c17_subject_ops_enumerated': int(agg.get('c17_subject_ops_enumerated', 0)),
        'c17_failure_points_enumerated': int(agg.get('c17_failure_points', 0)),
        'blocked_runs': int(agg.get('blocked', 0)),
        'blocked_by': blocked,
        'capped_runs': int(agg.get('capped', 0)),
        'skipped_ops': int(agg.get('skipped_ops', 0)),
        'avoided_by_known_finding': int(agg.get('avoided_by_known_finding', 0)),
        'known_finding_signature_hits': agg.get('known_hits', {}),
        'not_attributable_candidates': unattributable,
        'configs': [{'name': c['name'], 'params': c['params'], 'allocator': c['traits'], 'runs': per_cfg_runs.get(c['name'], 0)} for c in cfgs],
        'flavours': sorted({f for _, f in pairs}),
        'binaries': len(pairs),
        'unbuildable': [n + '.' + f for (n, f), (p, _) in built.items() if p is None],
        'known_findings_reported': kf_lines,
        'trigger_regions_avoided': avoid,
        'signature_findings_tolerated': known_sigs,
        'components': {
            'real': ['/repo/src/cntgs/** (header-only library, current working tree, public API only)'],
            'stub': ['allocator (SimAlloc/SimHeap: placement, junk, stale reuse, failure injection, identity)',
                     'value types (Tracked/TrackedMO/TrackedThrow/Pod + built-ins, std::pair, std::string, std::unique_ptr)',
                     'source ranges and iterators handed to emplace_back', 'caller threads (C19 only)'],
        },
        'build_wall_s': round(t_build, 1),
        'harness_errors': errors[:10],
    }
    if extra:
        cov.update(extra)
    doc = {'property_id': prop, 'tier': tier, 'seed': seed, 'level': level, 'coverage': cov,
           'assumptions': ['documented preconditions are enforced by the interpreter (size()<capacity(), payload within the reserved bytes, '
                           'equal field sizes for reference assignment, count field equals the span length)',
                           'sampling, not enumeration: a clean batch is evidence, not proof',
                           'value types throw only in C19 (F10: copies of shared objects); source iterators never throw'],
           'wall_s': round(wall, 2), 'violations': len(violations)}
    edir = os.environ.get('VERIF_EVIDENCE_DIR', os.path.join(ROOT, 'evidence'))
    os.makedirs(edir, exist_ok=True)
    tmp = os.path.join(edir, '%s.json.tmp' % prop)
    json.dump(doc, open(tmp, 'w'), indent=1)
    os.replace(tmp, os.path.join(edir, '%s.json' % prop))


# ------------------------------------------------------------------------------------------------
def selftest_determinism():
    seed = int(os.environ.get('VERIF_SEED', '1'))
    cfgs = cfgmod.curated()
    pick = [c for i, c in enumerate(cfgs) if i % 4 == seed % 4][:10]
    pairs = [(c, f) for c in pick for f in ('fence', 'asan')]
    built = build_all(pairs)
    bad = 0
    total = 0
    for prop in ('C01', 'C09', 'C12', 'C13', 'C17'):
        for (c, f) in pairs:
            path, diag = built[(c['name'], f)]
            if path is None:
                continue
            n = 400 if f == 'fence' else 100
            outs = []
            for split in (1, 4):
                lines = {}
                chunk = n // split
                for frm in range(0, n, chunk):
                    rc, so, se = run_worker(path, ['run', '--prop', prop, '--seed', str(seed), '--from', str(frm), '--count', str(chunk), '--hashes'])
                    for l in so.splitlines():
                        if l.startswith('R ') or l.startswith('CRASH'):
                            lines[l.split()[1]] = l
                outs.append(lines)
            total += len(outs[0])
            if outs[0] != outs[1]:
                bad += 1
                diff = [k for k in outs[0] if outs[0].get(k) != outs[1].get(k)][:3]
                log('NONDETERMINISTIC %s %s %s: %s' % (prop, c['name'], f, diff))
    log('determinism: %d run fingerprints compared twice (different process splits), %d diverging batches' % (total, bad))
    return 0 if bad == 0 else 2


def main(argv):
    if len(argv) < 2:
        print(__doc__)
        return 2
    if argv[1] == 'replay':
        rc, _ = replay_file(argv[2])
        return rc
    if argv[1] == 'build':
        tier = argv[2] if len(argv) > 2 else 'quick'
        seed = int(os.environ.get('VERIF_SEED', '1'))
        pairs = {}
        for prop in CLAIMED:
            for i, c in enumerate(configs_for(prop, tier, seed)):
                for f in flavours_for(prop, tier, c, seed, i):
                    pairs[(c['name'], f)] = (c, f)
        t = time.time()
        res = build_all(list(pairs.values()))
        bad = [k for k, (p, d) in res.items() if p is None]
        log('built %d binaries in %.0f s, %d failed %s' % (len(res), time.time() - t, len(bad), bad[:5]))
        return 0
    if argv[1] == 'selftest':
        return selftest_determinism()
    prop = argv[1]
    if prop not in CLAIMED:
        log('property %s is not claimed (see MANIFEST.json not_applicable)' % prop)
        return 2
    tier = argv[2] if len(argv) > 2 else os.environ.get('VERIF_TIER', 'quick')
    if tier not in ('quick', 'thorough'):
        tier = 'quick'
    return check(prop, tier)


if __name__ == '__main__':
    sys.exit(main(sys.argv))
