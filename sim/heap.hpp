// SimHeap: the simulated "environment" behind every allocator instance handed to the library.
// It decides placement (guard pages, minimal alignment, stale reuse), fresh-memory content (junk),
// and whether a request fails; it keeps the block ledger used by the C02/C05/C07/C08/C16/C17 oracles.
// Single TU per worker binary: everything is inline.
#pragma once
#include "prng.hpp"

#include <sys/mman.h>
#include <unistd.h>
#include <signal.h>

#include <cstdint>
#include <cstddef>
#include <cstdio>
#include <cstdlib>
#include <cstring>
#include <new>

#if defined(__has_feature)
#if __has_feature(address_sanitizer)
#define SIM_ASAN 1
#endif
#endif
#if defined(__SANITIZE_ADDRESS__)
#define SIM_ASAN 1
#endif
#ifdef SIM_ASAN
#include <sanitizer/asan_interface.h>
#define SIM_POISON(p, n) ASAN_POISON_MEMORY_REGION(p, n)
#define SIM_UNPOISON(p, n) ASAN_UNPOISON_MEMORY_REGION(p, n)
#define SIM_NO_ASAN __attribute__((no_sanitize("address")))
#else
#define SIM_POISON(p, n) ((void)0)
#define SIM_UNPOISON(p, n) ((void)0)
#define SIM_NO_ASAN
#endif

namespace sim
{
struct SimBadAlloc : std::bad_alloc
{
    const char* what() const noexcept override { return "SimBadAlloc"; }
};

// global operator new is counted while inside a library call; harness code that runs nested inside one
// (ledger, violation reporting) suspends the counting
inline int g_in_lib = 0;
inline std::uint64_t g_new_in_lib = 0;
#ifdef SIM_TSAN
extern "C" void AnnotateIgnoreReadsBegin(const char* file, int line);
extern "C" void AnnotateIgnoreReadsEnd(const char* file, int line);
extern "C" void AnnotateIgnoreWritesBegin(const char* file, int line);
extern "C" void AnnotateIgnoreWritesEnd(const char* file, int line);
inline thread_local bool t_tsan_ignoring = false;
inline volatile bool g_tsan_gate = false;  // only while reader tasks exist (C19 read phase)
// Harness code runs with all of its memory accesses ignored by ThreadSanitizer (it is serialised by a hand-off TSan
// cannot see); only library calls are made visible.
inline void tsan_visible(bool on, bool force = false)
{
    if (!g_tsan_gate && !force) return;
    if (on && t_tsan_ignoring)
    {
        AnnotateIgnoreReadsEnd(__FILE__, __LINE__);
        AnnotateIgnoreWritesEnd(__FILE__, __LINE__);
        t_tsan_ignoring = false;
    }
    else if (!on && !t_tsan_ignoring)
    {
        AnnotateIgnoreReadsBegin(__FILE__, __LINE__);
        AnnotateIgnoreWritesBegin(__FILE__, __LINE__);
        t_tsan_ignoring = true;
    }
}
#else
inline void tsan_visible(bool, bool = false) {}
#endif

struct HarnessScope
{
    int saved;
#ifdef SIM_TSAN
    bool was_visible;
    HarnessScope() noexcept : saved(g_in_lib), was_visible(g_tsan_gate && !t_tsan_ignoring)
    {
        g_in_lib = 0;
        if (was_visible) tsan_visible(false);
    }
    ~HarnessScope()
    {
        g_in_lib = saved;
        if (was_visible) tsan_visible(true);
    }
#else
    HarnessScope() noexcept : saved(g_in_lib) { g_in_lib = 0; }
    ~HarnessScope() { g_in_lib = saved; }
#endif
    HarnessScope(const HarnessScope&) = delete;
};

// implemented by the harness: records a violation found by the environment (never throws)
void env_violation(const char* prop, const char* cls, const char* key, long a = 0, long b = 0);

enum Placement : std::uint8_t
{
    PL_FENCE_RIGHT,
    PL_FENCE_LEFT,
    PL_INTERIOR,
    PL_STALE,
    PL_ZERO,
    PL_COUNT
};
inline const char* const PLACEMENT_NAMES[PL_COUNT] = {"fence_right", "fence_left", "interior_minalign", "reuse_stale",
                                                      "zero_size"};

enum BlockKind : std::uint8_t
{
    BK_DATA,
    BK_TABLE,
    BK_ELEMENT,
    BK_COUNT
};
inline const char* const KIND_NAMES[BK_COUNT] = {"data", "table", "element"};

enum JunkMode : std::uint8_t
{
    JUNK_RANDOM,
    JUNK_ZERO,
    JUNK_FF,
    JUNK_A5,
    JUNK_PLAUSIBLE,
    JUNK_COUNT
};
inline const char* const JUNK_NAMES[JUNK_COUNT] = {"random", "zero", "ff", "a5", "plausible"};

struct Block
{
    std::uint32_t seq;
    char* base;
    std::size_t bytes;
    std::size_t align;
    int alloc_id;
    std::uint8_t kind;
    std::uint8_t placement;
    bool live;
    bool owns_map;  // false once the mapping was handed to a stale-reuse successor
    char* map;      // includes both guard pages
    std::size_t maplen;
    char* rw;
    std::size_t rwlen;
    std::uint32_t step_alloc;
    std::uint32_t step_free;
};

inline constexpr std::size_t PAGE = 4096;
inline constexpr std::size_t REDZONE = 64;
inline constexpr unsigned char CANARY = 0xC5;
inline constexpr int MAX_BLOCKS = 3000;
inline constexpr std::size_t MAX_BLOCK_BYTES = std::size_t{8} << 20;  // larger requests end the run as "capped"
inline constexpr std::size_t ABSURD_BYTES = std::size_t{1} << 40;       // requests beyond this are a wrapped-around size

struct Heap
{
    Block blocks[MAX_BLOCKS];
    int nblocks = 0;
    int stash[64];
    int nstash = 0;
    Rng env{1};
    std::uint8_t junk = JUNK_RANDOM;
    bool allow_stale = true;
    bool protect_pages = true;  // false under valgrind (vg flavour): plain mappings, no junk
    bool fill_junk = true;
    // per-op fault attachment
    int fail_at = 0;         // k-th allocation of the current op throws (0 = none)
    int op_allocs = 0;       // allocation requests seen in the current op
    int op_frees = 0;
    bool fault_fired = false;
    std::uint8_t cur_kind = BK_DATA;  // label for non-table blocks requested by the current op
    std::uint32_t step = 0;
    bool capped = false;
    bool absurd = false;
    // counters (per worker lifetime)
    std::uint64_t n_alloc = 0, n_free = 0, n_fault = 0, bytes_alloc = 0;
    std::uint64_t n_place[PL_COUNT] = {};
    std::uint64_t n_min_align = 0;
    // event fingerprint of allocator traffic (address free)
    Fnv* log = nullptr;

    void begin_run(std::uint64_t env_seed, bool stale)
    {
        env = Rng(env_seed);
        junk = static_cast<std::uint8_t>(env.below(JUNK_COUNT));
        allow_stale = stale;
        fail_at = 0;
        op_allocs = op_frees = 0;
        fault_fired = false;
        step = 0;
        capped = false;
        absurd = false;
    }

    void begin_op(int fail_k, std::uint8_t kind)
    {
        fail_at = fail_k;
        op_allocs = 0;
        op_frees = 0;
        fault_fired = false;
        cur_kind = kind;
    }

    void fill(char* p, std::size_t n)
    {
        if (!fill_junk)
        {
            return;
        }
        switch (junk)
        {
            case JUNK_ZERO: std::memset(p, 0, n); break;
            case JUNK_FF: std::memset(p, 0xFF, n); break;
            case JUNK_A5: std::memset(p, 0xA5, n); break;
            case JUNK_PLAUSIBLE:
            {
                // never-written bookkeeping slots look like valid small offsets / sizes
                std::size_t i = 0;
                for (; i + 8 <= n; i += 8)
                {
                    std::uint64_t w = env.below(97) * 8;
                    std::memcpy(p + i, &w, 8);
                }
                for (; i < n; ++i) p[i] = static_cast<char>(env.below(4));
                break;
            }
            default:
            {
                std::size_t i = 0;
                for (; i + 8 <= n; i += 8)
                {
                    std::uint64_t w = env.next();
                    std::memcpy(p + i, &w, 8);
                }
                for (; i < n; ++i) p[i] = static_cast<char>(env.next());
            }
        }
    }

    void* allocate(std::size_t bytes, std::size_t align, int alloc_id, bool is_table)
    {
        ++op_allocs;
        if (log)
        {
            log->add(0xA110C);
            log->add(bytes);
            log->add(align);
            log->add(static_cast<std::uint64_t>(alloc_id));
            log->add(is_table);
        }
        if (fail_at != 0 && op_allocs == fail_at)
        {
            fault_fired = true;
            ++n_fault;
            if (log) log->add(0xFA17);
            throw SimBadAlloc{};
        }
        if (bytes > ABSURD_BYTES)
        {
            // no operation of a run can legitimately need this much: a size computation wrapped around
            absurd = true;
            throw SimBadAlloc{};
        }
        if (nblocks >= MAX_BLOCKS - 1 || bytes > MAX_BLOCK_BYTES)
        {
            capped = true;
            throw SimBadAlloc{};  // never reached in sane runs; the run is discarded as capped
        }
        ++n_alloc;
        bytes_alloc += bytes;
        Block& b = blocks[nblocks];
        b.seq = static_cast<std::uint32_t>(nblocks);
        b.bytes = bytes;
        b.align = align;
        b.alloc_id = alloc_id;
        b.kind = is_table ? BK_TABLE : cur_kind;
        b.live = true;
        b.owns_map = true;
        b.step_alloc = step;
        b.step_free = 0;
        // placement decision (env stream)
        std::uint8_t pl;
        int reuse = -1;
        if (bytes == 0)
        {
            pl = PL_ZERO;
        }
        else
        {
            const auto r = env.below(100);
            if (allow_stale && r < 18)
            {
                for (int i = nstash - 1; i >= 0; --i)
                {
                    const Block& s = blocks[stash[i]];
                    if (s.bytes == bytes && s.align == align)
                    {
                        reuse = i;
                        break;
                    }
                }
            }
            if (reuse >= 0) pl = PL_STALE;
            else if (r < 50) pl = PL_FENCE_RIGHT;
            else if (r < 65) pl = PL_FENCE_LEFT;
            else pl = PL_INTERIOR;
        }
        b.placement = pl;
        ++n_place[pl];
        if (pl == PL_STALE)
        {
            Block& s = blocks[stash[reuse]];
            b.map = s.map;
            b.maplen = s.maplen;
            b.rw = s.rw;
            b.rwlen = s.rwlen;
            b.base = s.base;
            s.owns_map = false;
            stash[reuse] = stash[--nstash];
            SIM_UNPOISON(b.base, b.bytes);
            ++nblocks;
            return b.base;  // old bytes intact
        }
        const std::size_t need = bytes + 2 * REDZONE + 2 * align;
        const std::size_t rwpages = (need + PAGE - 1) / PAGE;
        b.rwlen = rwpages * PAGE;
        b.maplen = b.rwlen + 2 * PAGE;
        void* m = ::mmap(nullptr, b.maplen, protect_pages ? PROT_NONE : (PROT_READ | PROT_WRITE),
                         MAP_PRIVATE | MAP_ANONYMOUS | MAP_NORESERVE, -1, 0);
        if (m == MAP_FAILED)
        {
            std::fprintf(stderr, "HARNESS mmap failed\n");
            std::_Exit(2);
        }
        b.map = static_cast<char*>(m);
        b.rw = b.map + PAGE;
        if (protect_pages) ::mprotect(b.rw, b.rwlen, PROT_READ | PROT_WRITE);
        char* const rw_end = b.rw + b.rwlen;
        switch (pl)
        {
            case PL_ZERO: b.base = rw_end; break;  // unique, any dereference faults
            case PL_FENCE_RIGHT: b.base = rw_end - bytes; break;
            case PL_FENCE_LEFT: b.base = b.rw; break;
            default:
            {
                auto a = reinterpret_cast<std::uintptr_t>(b.rw + REDZONE);
                a = (a + align - 1) / align * align;
                if (((a / align) & 1u) == 0) a += align;  // odd multiple: aligned to `align` and to nothing larger
                b.base = reinterpret_cast<char*>(a);
                ++n_min_align;
            }
        }
        if (fill_junk)
        {
            std::memset(b.rw, CANARY, static_cast<std::size_t>(b.base - b.rw));
            fill(b.base, bytes);
            std::memset(b.base + bytes, CANARY, static_cast<std::size_t>(rw_end - (b.base + bytes)));
        }
        SIM_POISON(b.rw, static_cast<std::size_t>(b.base - b.rw));
        SIM_POISON(b.base + bytes, static_cast<std::size_t>(rw_end - (b.base + bytes)));
        ++nblocks;
        return b.base;
    }

    // F10 (a value constructor threw inside an operation): a block obtained since `first_seq` that the library did not
    // give back is taken back by the harness, so that it does not count as a leak of a later operation
    int reclaim_since(int first_seq)
    {
        int n = 0;
        for (int i = first_seq; i < nblocks; ++i)
        {
            Block& b = blocks[i];
            if (!b.live) continue;
            b.live = false;
            b.step_free = step;
            ++n;
            if (b.bytes != 0 && protect_pages) ::mprotect(b.rw, b.rwlen, PROT_NONE);
        }
        return n;
    }

    Block* find_by_base(const void* p)
    {
        for (int i = nblocks - 1; i >= 0; --i)
        {
            if (blocks[i].base == p && blocks[i].live) return &blocks[i];
        }
        for (int i = nblocks - 1; i >= 0; --i)
        {
            if (blocks[i].base == p) return &blocks[i];
        }
        return nullptr;
    }

    // live block whose [base, base+bytes] contains p (one-past-the-end included), else nullptr
    Block* find_containing(const void* p)
    {
        const char* c = static_cast<const char*>(p);
        for (int i = nblocks - 1; i >= 0; --i)
        {
            Block& b = blocks[i];
            if (b.live && c >= b.base && c <= b.base + b.bytes) return &b;
        }
        return nullptr;
    }

    // freed block (not recycled by a live one) containing p
    const Block* find_freed_containing(const void* p) const
    {
        const char* c = static_cast<const char*>(p);
        for (int i = nblocks - 1; i >= 0; --i)
        {
            const Block& b = blocks[i];
            if (!b.live && b.owns_map && b.bytes > 0 && c >= b.base && c < b.base + b.bytes) return &b;
        }
        return nullptr;
    }
    const Block* find_any_containing(const void* p) const
    {
        const char* c = static_cast<const char*>(p);
        for (int i = nblocks - 1; i >= 0; --i)
        {
            const Block& b = blocks[i];
            if (b.bytes > 0 && c >= b.base && c < b.base + b.bytes) return &b;
        }
        return nullptr;
    }

    void deallocate(void* p, std::size_t bytes, int alloc_id, bool always_equal)
    {
        ++op_frees;
        Block* b = find_by_base(p);
        if (log)
        {
            log->add(0xF4EE);
            log->add(bytes);
            log->add(static_cast<std::uint64_t>(alloc_id));
            log->add(b ? b->seq : 0xFFFFFFFFu);
        }
        if (!b)
        {
            env_violation("C07", "free-unknown-pointer", "deallocate of a pointer the allocator never returned");
            return;
        }
        if (!b->live)
        {
            env_violation("C07", "double-free", KIND_NAMES[b->kind], b->seq);
            return;
        }
        if (b->bytes != bytes)
        {
            env_violation("C07", "free-wrong-size", KIND_NAMES[b->kind], static_cast<long>(b->bytes),
                          static_cast<long>(bytes));
        }
        if (!always_equal && b->alloc_id != alloc_id)
        {
            env_violation("C07", "free-foreign-allocator", KIND_NAMES[b->kind], b->alloc_id, alloc_id);
        }
        ++n_free;
        b->live = false;
        b->step_free = step;
        if (b->bytes == 0) return;
        // F5/F6: either keep the bytes for a later stale reuse, or poison + quarantine (PROT_NONE)
        if (allow_stale && nstash < 64 && env.below(100) < 35)
        {
            stash[nstash++] = static_cast<int>(b->seq);
            SIM_POISON(b->base, b->bytes);
        }
        else
        {
            if (protect_pages) ::mprotect(b->rw, b->rwlen, PROT_NONE);
            else if (fill_junk) std::memset(b->base, 0xDD, b->bytes);
        }
    }

    SIM_NO_ASAN bool canaries_intact(const Block*& bad, long& off)
    {
#ifdef SIM_ASAN
        (void)bad;
        (void)off;
        return true;  // poisoned shadow reports at the access itself
#else
        if (!fill_junk) return true;
        for (int i = 0; i < nblocks; ++i)
        {
            const Block& b = blocks[i];
            if (!b.owns_map || b.bytes == 0) continue;
            if (!b.live)
            {
                bool stashed = false;
                for (int k = 0; k < nstash; ++k) stashed |= (stash[k] == static_cast<int>(b.seq));
                if (!stashed) continue;  // quarantined: PROT_NONE, cannot be written
            }
            for (const char* c = b.rw; c < b.base; ++c)
                if (static_cast<unsigned char>(*c) != CANARY)
                {
                    bad = &b;
                    off = c - b.base;
                    return false;
                }
            const char* e = b.rw + b.rwlen;
            for (const char* c = b.base + b.bytes; c < e; ++c)
                if (static_cast<unsigned char>(*c) != CANARY)
                {
                    bad = &b;
                    off = c - (b.base + b.bytes);
                    return false;
                }
        }
        return true;
#endif
    }

    int live_count() const
    {
        int n = 0;
        for (int i = 0; i < nblocks; ++i) n += blocks[i].live;
        return n;
    }

    // release every mapping of the run (vm.max_map_count is finite)
    void end_run()
    {
        for (int i = 0; i < nblocks; ++i)
        {
            Block& b = blocks[i];
            if (b.owns_map)
            {
                SIM_UNPOISON(b.rw, b.rwlen);
                ::munmap(b.map, b.maplen);
            }
        }
        nblocks = 0;
        nstash = 0;
    }

    // async-signal-safe classification of a faulting address
    int classify(const void* addr, char* out, std::size_t outlen) const
    {
        const char* c = static_cast<const char*>(addr);
        for (int i = nblocks - 1; i >= 0; --i)
        {
            const Block& b = blocks[i];
            if (c >= b.map && c < b.map + b.maplen)
            {
                const char* side;
                long off;
                if (c < b.base)
                {
                    side = "under";
                    off = b.base - c;
                }
                else if (c >= b.base + b.bytes)
                {
                    side = "over";
                    off = c - (b.base + b.bytes);
                }
                else
                {
                    side = "inside";
                    off = c - b.base;
                }
                return std::snprintf(out, outlen, "kind=%s state=%s side=%s off=%ld bytes=%zu block=%u placement=%s",
                                     KIND_NAMES[b.kind], b.live ? "live" : "freed", side, off, b.bytes, b.seq,
                                     PLACEMENT_NAMES[b.placement]);
            }
        }
        return std::snprintf(out, outlen, "kind=none state=%s side=wild off=0",
                             reinterpret_cast<std::uintptr_t>(addr) < 65536 ? "null" : "wild");
    }
};

inline Heap g_heap;
// pages that hold the container objects of the current run (released by the worker after the run)
inline unsigned char* g_obj_pages = nullptr;
inline volatile bool g_read_phase = false;  // C19: shared state is write-protected
inline bool g_shared_block[MAX_BLOCKS] = {};  // C19: blocks owned by the shared objects (write-protected in the read phase)

// is `addr` inside the readable part of a write-protected shared block?
inline bool in_shared_block(const void* addr)
{
    const char* c = static_cast<const char*>(addr);
    for (int i = 0; i < g_heap.nblocks; ++i)
    {
        const Block& b = g_heap.blocks[i];
        if (g_shared_block[i] && b.live && c >= b.rw && c < b.rw + b.rwlen) return true;
    }
    return false;
}
}  // namespace sim
