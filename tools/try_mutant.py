#!/usr/bin/env python3
"""Run checks against a seeded change without touching /repo: a scratch copy of /repo/src gets the patch and the
checks are pointed at it through VERIF_REPO.

  tools/try_mutant.py <patch.diff> [C01 C02 ...]      (default: all claimed properties, quick tier)
Prints one line per check: which fired (exit 1 + VIOLATION), which stayed quiet.  The scratch copy is removed afterwards.
"""
import os
import shutil
import subprocess
import sys
import tempfile

ROOT = os.path.dirname(os.path.dirname(os.path.abspath(__file__)))
sys.path.insert(0, os.path.join(ROOT, 'driver'))
import verif  # noqa: E402


def main():
    patch = os.path.abspath(sys.argv[1])
    props = sys.argv[2:] or verif.CLAIMED
    tier = os.environ.get('MUTANT_TIER', 'quick')
    scratch = tempfile.mkdtemp(prefix='mrepo_')
    try:
        shutil.copytree('/repo/src', os.path.join(scratch, 'src'))
        p = subprocess.run(['patch', '-p1', '-s', '-d', scratch, '-i', patch], stdout=subprocess.PIPE, stderr=subprocess.STDOUT, text=True)
        if p.returncode != 0:
            print('patch does not apply:', p.stdout)
            return 2
        env = dict(os.environ, VERIF_REPO=scratch, VERIF_EVIDENCE_DIR=os.path.join(scratch, 'evidence'),
                   VERIF_REPLAY_DIR=os.path.join(scratch, 'replays'))
        fired = []
        for prop in props:
            r = subprocess.run([os.path.join(ROOT, 'check'), prop, tier], env=env, stdout=subprocess.PIPE, stderr=subprocess.STDOUT, text=True)
            lines = [l for l in r.stdout.splitlines() if l.startswith('VIOLATION') or l.startswith('  ') or l.startswith('HARNESS')]
            print('%s exit=%d %s' % (prop, r.returncode, ' | '.join(l.strip()[:160] for l in lines[:4])), flush=True)
            if r.returncode == 1:
                fired.append(prop)
        print('FIRED:', ' '.join(fired) if fired else '(none)')
        return 0
    finally:
        shutil.rmtree(scratch, ignore_errors=True)
        # the mutant's build cache entry is pruned by the next check on the real tree


if __name__ == '__main__':
    sys.exit(main())
