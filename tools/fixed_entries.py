#!/usr/bin/env python3
"""Regenerates the `fixed:` lines of KNOWN_FINDINGS.txt from the "fix:" commits in /repo (hashes change when the
fix series is rebased). Property mapping is by commit subject."""
import os
import re
import subprocess

MAP = [
    ('copying a vector of trivially copyable types did not compile', 'C09'),
    ('assigning a const ContiguousElement to a reference did not compile', 'C12'),
    ('std::tuple_element of ContiguousElement named a non-existent member', 'C20'),
    ('allocator-extended constructor of all-plain vectors did not compile', 'C20'),
    ('reference assignment and swap did not compile for VaryingSize of non-trivial types', 'C11'),
    ('default-constructed fixed-size/plain vector had an element stride of zero', 'C18'),
    ('moved-from owning pointer kept its size', 'C09'),
    ('reserve/copy of a partly filled varying-size vector changed its size', 'C10'),
    ('data()/data_begin() of an empty varying-size vector read an unwritten table slot', 'C18'),
    ('clear()/erase() on varying-size vectors read offset-table slots that hold no element', 'C18'),
    ('erase() on varying-size vectors of trivial types left a stale end marker', 'C01'),
    ('vector operator== ignored the length of the right-hand side', 'C13'),
    ('equality of FixedSize/VaryingSize spans ignored the length of the right-hand side', 'C13'),
    ('move assignment released the old block through the new allocator', 'C08'),
    ('clearing or assigning to a moved-from vector destroyed elements it no longer owns', 'C09'),
    ('erase() of non-trivial varying-size elements placed shifted elements unaligned', 'C03'),
    ('ContiguousElement mixed up storage units and bytes', 'C12'),
    ('the offset table of varying-size vectors was never deallocated', 'C07'),
    ('locator constructors that allocate were declared noexcept', 'C17'),
    ('copy assignment of the owning pointer left a dangling pointer when allocation failed', 'C17'),
    ('copy assignment left the target inconsistent when an allocation failed', 'C17'),
    ('ContiguousElement copy assignment destroyed its fields before an allocation that may fail', 'C17'),
    ('memcmp comparison fast paths compared alignment padding', 'C13'),
    ('erase() constructed shifted non-trivial objects on top of objects that were still alive', 'C06'),
    ('block size was under-estimated when plain/FixedSize parameters follow a low-aligned VaryingSize', 'C02'),
    ('memcmp comparison fast paths ignored differing FixedSize counts', 'C13'),
    ('default-initialised vectors with FixedSize parameters had indeterminate fixed sizes', 'C18'),
    ('whole-buffer comparison ignored the element count of vectors with zero-sized elements', 'C13'),
    ('iterators of vectors without VaryingSize parameters were not default constructible', 'C11'),
    ('structured bindings of a const ContiguousElement were ill-formed', 'C20'),
    ('iterators of std::deque and reverse iterators were taken for contiguous iterators', 'C15'),
]

ROOT = os.path.dirname(os.path.dirname(os.path.abspath(__file__)))
log = subprocess.check_output(['git', '-C', '/repo', 'log', '--format=%h %s', '--reverse'], text=True).splitlines()
lines = []
unmapped = []
for l in log:
    h, _, subj = l.partition(' ')
    if not subj.startswith('fix:'):
        continue
    subj = subj[4:].strip()
    prop = next((p for s, p in MAP if s == subj), None)
    if prop is None:
        unmapped.append(subj)
        prop = 'C??'
    lines.append('fixed: property=%s %s %s' % (prop, h, subj))
path = os.path.join(ROOT, 'KNOWN_FINDINGS.txt')
keep = [l.rstrip('\n') for l in open(path) if not l.startswith('fixed:')]
while keep and keep[-1] == '':
    keep.pop()
open(path, 'w').write('\n'.join(keep + lines) + '\n')
print(len(lines), 'fixed entries;', 'UNMAPPED: %s' % unmapped if unmapped else 'all mapped')
