#!/bin/bash
# tools/vet_mutant.sh <worktree> <seed-id> <property> [demo build flags...]
# Confirms a sub-agent's change independently (tests pass with it, demo fails with it and passes without it),
# stores it under /verif/seeded/<seed-id>/ and prints the verdict lines for meta.json.
set -u
WT=$1; ID=$2; PROP=$3; shift 3; FLAGS="$*"
OUT=/verif/seeded/$ID
mkdir -p $OUT
cd $WT || exit 2
git diff -- src > $OUT/patch.diff
cp demo.cpp $OUT/demo.cpp 2>/dev/null
cp NOTES.md $OUT/NOTES.md 2>/dev/null
[ -s $OUT/patch.diff ] || { echo "EMPTY PATCH"; exit 2; }
echo "== patch: $(grep -c '^[-+][^-+]' $OUT/patch.diff) changed lines in $(grep -c '^diff' $OUT/patch.diff) file(s)"
[ -d _build ] || cmake -G Ninja -B _build -DCMAKE_BUILD_TYPE=RelWithDebInfo -DCNTGS_BUILD_TESTS=ON >/dev/null
ninja -C _build cntgs-test-cpp17 cntgs-test-cpp20 >/dev/null 2>&1; B=$?
T17=$(./_build/test/cntgs-test-cpp17 2>&1 | grep -E "test cases" | tail -1); T20=$(./_build/test/cntgs-test-cpp20 2>&1 | grep -E "test cases" | tail -1)
echo "== tests with change: build=$B | $T17 | $T20"
g++ -std=c++17 -I src $FLAGS demo.cpp -o /tmp/wt/demo_$ID 2>/dev/null && timeout 60 /tmp/wt/demo_$ID >/dev/null 2>&1; W=$?
git apply -R $OUT/patch.diff
g++ -std=c++17 -I src $FLAGS demo.cpp -o /tmp/wt/demo_$ID 2>/dev/null && timeout 60 /tmp/wt/demo_$ID >/dev/null 2>&1; WO=$?
git apply $OUT/patch.diff
rm -f /tmp/wt/demo_$ID
echo "== demo exit with change: $W ; without: $WO"
