#!/usr/bin/env python3
"""tools/trace_replay.py <replay.json> : rebuild the configuration from the current tree and print the per-step trace."""
import json, os, subprocess, sys, tempfile
ROOT = os.path.dirname(os.path.dirname(os.path.abspath(__file__)))
sys.path.insert(0, os.path.join(ROOT, 'driver'))
import verif
doc = json.load(open(sys.argv[1]))
binary, diag = verif.build_one(doc['config'], doc['flavour'])
if not binary:
    print(diag); sys.exit(2)
fd, path = tempfile.mkstemp(suffix='.txt')
os.write(fd, ('\n'.join(doc['plan']) + '\n').encode()); os.close(fd)
args = [binary, 'exec', '--prop', doc['property'], '--plan', path, '--env', str(doc['env'])]
if doc.get('env2'): args += ['--env2', str(doc['env2'])]
if doc.get('avoid'): args += ['--avoid', ','.join(doc['avoid'])]
print(doc['config']['params'], '|', doc['config']['traits'], '|', doc['flavour'])
subprocess.run(args, env=dict(os.environ, SIM_TRACE='1'))
os.unlink(path)
