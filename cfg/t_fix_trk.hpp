#pragma once
#include <cstdint>
#include <string>
#include <memory>
#include <cntgs/contiguous.hpp>
#include "../sim/alloc.hpp"
#include "../sim/values.hpp"
#define CFG_NAME "t_fix_trk"
#define CFG_PARAMS cntgs::FixedSize<sim::Tracked<12>>, std::uint16_t, sim::Tracked<9>
#define CFG_TRAITS sim::TrAll
