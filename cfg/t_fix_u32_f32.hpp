#pragma once
#include <cstdint>
#include <cntgs/contiguous.hpp>
#include "../sim/alloc.hpp"
#define CFG_NAME "t_fix_u32_f32"
#define CFG_PARAMS std::uint32_t, cntgs::FixedSize<float>
#define CFG_TRAITS sim::TrNone
