// Value types stored in the containers under test, the lifetime ledger behind the instrumented ones,
// and the codec that maps abstract model values (uint64) to concrete objects and back.
#pragma once
#include "heap.hpp"

#include <cstdint>
#include <cstring>
#include <map>
#include <memory>
#include <string>
#include <utility>
#include <type_traits>

namespace sim
{
inline constexpr std::uint64_t V_MOVED = ~0ull - 1;  // definite moved-from state (Tracked, unique_ptr)
inline constexpr std::uint64_t V_UNSPEC = ~0ull;     // valid but unspecified (std::string after move)

// ---------------------------------------------------------------------------------------------
// Lifetime ledger
// ---------------------------------------------------------------------------------------------
struct LiveInfo
{
    std::uint32_t size;
    std::uint32_t serial;
};

struct Ledger
{
    std::map<std::uintptr_t, LiveInfo> live;
    std::uint32_t serial = 0;
    // callback counters; the per-step deltas go into the event log
    std::uint64_t n_value_ctor = 0, n_copy_ctor = 0, n_move_ctor = 0, n_copy_assign = 0, n_move_assign = 0,
                  n_dtor = 0;

    void reset()
    {
        live.clear();
        serial = 0;
    }

    void construct(const void* p, std::size_t n)
    {
        HarnessScope hs;
        const auto a = reinterpret_cast<std::uintptr_t>(p);
        auto it = live.lower_bound(a);
        if (it != live.end() && it->first < a + n)
        {
            env_violation("C06", "construct-over-live-object", it->first == a ? "same-address" : "overlap-above");
        }
        else if (it != live.begin())
        {
            auto pr = std::prev(it);
            if (pr->first + pr->second.size > a)
            {
                env_violation("C06", "construct-over-live-object", "overlap-below");
            }
        }
        live[a] = LiveInfo{static_cast<std::uint32_t>(n), ++serial};
    }

    // returns false if the object is not alive at exactly this address
    bool alive(const void* p, std::size_t n) const
    {
        HarnessScope hs;
        auto it = live.find(reinterpret_cast<std::uintptr_t>(p));
        return it != live.end() && it->second.size == n;
    }

    // forget every lifetime inside [lo, hi): objects abandoned in a block (F10, value constructor threw)
    std::size_t purge_range(std::uintptr_t lo, std::uintptr_t hi)
    {
        HarnessScope hs;
        std::size_t n = 0;
        for (auto it = live.lower_bound(lo); it != live.end() && it->first < hi;)
        {
            it = live.erase(it);
            ++n;
        }
        return n;
    }

    void destroy(const void* p, std::size_t n)
    {
        HarnessScope hs;
        auto it = live.find(reinterpret_cast<std::uintptr_t>(p));
        if (it == live.end() || it->second.size != n)
        {
            env_violation("C06", "destroy-not-alive", "double destruction, destruction of a byte-wise relocated or never constructed object");
            return;
        }
        live.erase(it);
    }
};

inline Ledger g_ledger;

inline constexpr std::uint32_t MOVED32 = 0xFFFFFFFEu;
inline constexpr std::uint32_t chk32(std::uint32_t id) noexcept { return static_cast<std::uint32_t>(mix64(id) >> 11) | 1u; }

// Non-trivial, copyable and movable, alignment 1 (the library stores objects at alignment 1 by default).
// F10: the k-th copy construction of a throwing-capable tracked object throws (armed per operation by the simulator)
struct SimValueThrow
{
};
inline int g_value_throw_countdown = 0;  // 0 = disarmed
inline bool g_value_throw_fired = false;

template <std::size_t N, bool MoveOnly = false, bool CanThrow = false>
struct __attribute__((packed)) TrackedT
{
    static_assert(N >= 9);
    struct Never
    {
    };
    using CopyArg = std::conditional_t<MoveOnly, Never, TrackedT>;
    std::uint32_t id;
    std::uint32_t chk;
    unsigned char pad[N - 8];

    void fill_pad() noexcept
    {
        for (std::size_t i = 0; i < sizeof(pad); ++i) pad[i] = static_cast<unsigned char>(id + i);
    }

    bool intact() const noexcept { return chk == chk32(id); }

    void check_source(const TrackedT& o, const char* what) const
    {
        if (!g_ledger.alive(&o, sizeof(TrackedT)))
        {
            env_violation("C06", "use-of-dead-object", what);
        }
        else if (!o.intact())
        {
            env_violation("C06", "clobbered-alive-object", what);
        }
    }

    explicit TrackedT(std::uint32_t v) noexcept : id(v), chk(chk32(v))
    {
        fill_pad();
        ++g_ledger.n_value_ctor;
        g_ledger.construct(this, sizeof(TrackedT));
    }

    TrackedT(const CopyArg& o) noexcept(!CanThrow)
    {
        check_source(o, "copy-construct-from");
        if constexpr (CanThrow)
        {
            if (g_value_throw_countdown > 0 && --g_value_throw_countdown == 0)
            {
                g_value_throw_fired = true;
                throw SimValueThrow{};
            }
        }
        id = o.id;
        chk = chk32(id);
        fill_pad();
        ++g_ledger.n_copy_ctor;
        g_ledger.construct(this, sizeof(TrackedT));
    }

    TrackedT(TrackedT&& o) noexcept(!CanThrow)  // never throws; the specification alone selects library paths
    {
        check_source(o, "move-construct-from");
        id = o.id;
        chk = chk32(id);
        fill_pad();
        o.id = MOVED32;
        o.chk = chk32(MOVED32);
        ++g_ledger.n_move_ctor;
        g_ledger.construct(this, sizeof(TrackedT));
    }

    TrackedT& operator=(const CopyArg& o) noexcept
    {
        check_source(o, "copy-assign-from");
        check_source(*this, "copy-assign-to");
        id = o.id;
        chk = chk32(id);
        fill_pad();
        ++g_ledger.n_copy_assign;
        return *this;
    }

    TrackedT& operator=(TrackedT&& o) noexcept
    {
        check_source(o, "move-assign-from");
        check_source(*this, "move-assign-to");
        if (this != &o)
        {
            id = o.id;
            chk = chk32(id);
            fill_pad();
            o.id = MOVED32;
            o.chk = chk32(MOVED32);
        }
        ++g_ledger.n_move_assign;
        return *this;
    }

    ~TrackedT() noexcept
    {
        if (g_ledger.alive(this, sizeof(TrackedT)) && !intact())
        {
            env_violation("C06", "clobbered-alive-object", "destroy");
        }
        ++g_ledger.n_dtor;
        g_ledger.destroy(this, sizeof(TrackedT));
        id = 0xDEADDEADu;
        chk = 0;
    }

    friend bool operator==(const TrackedT& a, const TrackedT& b) noexcept { return a.id == b.id; }
    friend bool operator!=(const TrackedT& a, const TrackedT& b) noexcept { return a.id != b.id; }
    friend bool operator<(const TrackedT& a, const TrackedT& b) noexcept { return a.id < b.id; }
};

template <std::size_t N>
using Tracked = TrackedT<N, false>;
template <std::size_t N>
using TrackedMO = TrackedT<N, true>;
template <std::size_t N>
using TrackedThrow = TrackedT<N, false, true>;
template <class T>
struct CanThrowOnCopy : std::false_type
{
};
template <std::size_t N, bool MO>
struct CanThrowOnCopy<TrackedT<N, MO, true>> : std::true_type
{
};

static_assert(sizeof(Tracked<12>) == 12 && alignof(Tracked<12>) == 1);
static_assert(sizeof(Tracked<9>) == 9);
static_assert(!std::is_trivially_copyable_v<Tracked<12>>);
static_assert(!std::is_copy_constructible_v<TrackedMO<12>> && std::is_move_constructible_v<TrackedMO<12>>);

// Trivially copyable, user-defined == and <, not eligible for any memcmp fast path; the pad bytes differ
// between equal objects, so a byte-wise comparison of Pods is observable.
inline std::uint32_t g_pod_counter = 0;
template <std::size_t N>
struct __attribute__((packed)) Pod
{
    static_assert(N >= 5);
    std::uint32_t id;
    unsigned char pad[N - 4];
    friend bool operator==(const Pod& a, const Pod& b) noexcept { return a.id == b.id; }
    friend bool operator!=(const Pod& a, const Pod& b) noexcept { return a.id != b.id; }
    friend bool operator<(const Pod& a, const Pod& b) noexcept { return a.id < b.id; }
};
static_assert(std::is_trivially_copyable_v<Pod<12>> && alignof(Pod<12>) == 1);

// ---------------------------------------------------------------------------------------------
// Codec
// ---------------------------------------------------------------------------------------------
enum MovedState
{
    MS_SAME,    // move == copy
    MS_MOVED,   // definite moved-from value V_MOVED
    MS_UNSPEC,  // valid but unspecified
};

template <class T, class = void>
struct Codec;

template <class T>
struct TrivialCodecBase
{
    static constexpr bool TRACKED = false;
    static constexpr bool MOVE_ONLY = false;
    static constexpr bool IDENTITY_EQ = false;
    static constexpr bool ALLOCATES = false;
    static constexpr MovedState MOVED = MS_SAME;
    static T load(const T& x) noexcept
    {
        T tmp;
        std::memcpy(static_cast<void*>(&tmp), static_cast<const void*>(&x), sizeof(T));
        return tmp;
    }
    static void store(T& dst, const T& v) noexcept
    {
        std::memcpy(static_cast<void*>(&dst), static_cast<const void*>(&v), sizeof(T));
    }
};

template <class T>
struct Codec<T, std::enable_if_t<std::is_integral_v<T>>> : TrivialCodecBase<T>
{
    using U = std::make_unsigned_t<T>;
    static constexpr std::uint64_t canon(std::uint64_t v) noexcept { return static_cast<U>(v); }
    static T make(std::uint64_t c) noexcept { return static_cast<T>(static_cast<U>(c)); }
    static std::uint64_t read(const T& x) noexcept { return static_cast<U>(TrivialCodecBase<T>::load(x)); }
    static void assign(T& dst, std::uint64_t c) noexcept { TrivialCodecBase<T>::store(dst, make(c)); }
};

template <>
struct Codec<std::byte> : TrivialCodecBase<std::byte>
{
    static constexpr std::uint64_t canon(std::uint64_t v) noexcept { return v & 0xff; }
    static std::byte make(std::uint64_t c) noexcept { return static_cast<std::byte>(c); }
    static std::uint64_t read(const std::byte& x) noexcept { return static_cast<std::uint64_t>(load(x)); }
    static void assign(std::byte& dst, std::uint64_t c) noexcept { store(dst, make(c)); }
};

inline std::uint32_t g_float_zero_counter = 0;
template <class T>
struct Codec<T, std::enable_if_t<std::is_floating_point_v<T>>> : TrivialCodecBase<T>
{
    // exact small non-negative integers, no NaN. Zero is materialised alternately as +0.0 and -0.0: equal and unordered
    // under the type's own == and <, different as bytes.
    static constexpr std::uint64_t canon(std::uint64_t v) noexcept { return v & 0xFFFFF; }
    static T make(std::uint64_t c) noexcept
    {
        if (c == 0 && (++g_float_zero_counter & 1u)) return -static_cast<T>(0);
        return static_cast<T>(c);
    }
    static std::uint64_t read(const T& x) noexcept { return static_cast<std::uint64_t>(TrivialCodecBase<T>::load(x)); }
    static void assign(T& dst, std::uint64_t c) noexcept { TrivialCodecBase<T>::store(dst, make(c)); }
};

template <class U>
struct Codec<U*> : TrivialCodecBase<U*>
{
    static constexpr std::uint64_t canon(std::uint64_t v) noexcept { return v & 0xFFFFFFFFFFFFull; }
    static U* make(std::uint64_t c) noexcept { return reinterpret_cast<U*>(static_cast<std::uintptr_t>(c)); }
    static std::uint64_t read(U* const& x) noexcept
    {
        return static_cast<std::uint64_t>(reinterpret_cast<std::uintptr_t>(TrivialCodecBase<U*>::load(x)));
    }
    static void assign(U*& dst, std::uint64_t c) noexcept { TrivialCodecBase<U*>::store(dst, make(c)); }
};

template <std::size_t N>
struct Codec<Pod<N>> : TrivialCodecBase<Pod<N>>
{
    static constexpr std::uint64_t canon(std::uint64_t v) noexcept { return v & 0xFFFFFFFFu; }
    static Pod<N> make(std::uint64_t c) noexcept
    {
        Pod<N> p;
        p.id = static_cast<std::uint32_t>(c);
        ++g_pod_counter;
        for (std::size_t i = 0; i < sizeof(p.pad); ++i) p.pad[i] = static_cast<unsigned char>(g_pod_counter * 31 + i);
        return p;
    }
    static std::uint64_t read(const Pod<N>& x) noexcept { return TrivialCodecBase<Pod<N>>::load(x).id; }
    static void assign(Pod<N>& dst, std::uint64_t c) noexcept { TrivialCodecBase<Pod<N>>::store(dst, make(c)); }
};

template <std::size_t N, bool MO, bool CT>
struct Codec<TrackedT<N, MO, CT>>
{
    using T = TrackedT<N, MO, CT>;
    static constexpr bool TRACKED = true;
    static constexpr bool MOVE_ONLY = MO;
    static constexpr bool IDENTITY_EQ = false;
    static constexpr bool ALLOCATES = false;
    static constexpr MovedState MOVED = MS_MOVED;
    static constexpr std::uint64_t canon(std::uint64_t v) noexcept { return v % 0xFFFFFF00ull; }
    static T make(std::uint64_t c) noexcept { return T(static_cast<std::uint32_t>(c)); }
    static std::uint64_t read(const T& x) noexcept
    {
        if (!g_ledger.alive(&x, sizeof(T)))
        {
            env_violation("C06", "held-object-not-alive", "a logically held object has no live lifetime at its address (relocated byte-wise, never constructed, or already destroyed)");
            return V_UNSPEC - 2;
        }
        if (!x.intact())
        {
            env_violation("C06", "clobbered-alive-object", "read");
        }
        return x.id == MOVED32 ? V_MOVED : x.id;
    }
    static void assign(T& dst, std::uint64_t c) noexcept { dst = T(static_cast<std::uint32_t>(c)); }
};

// Trivially DESTRUCTIBLE but not trivially copy/move constructible: every object remembers its own address, which
// only its constructors set. A byte-wise relocation (memcpy/memmove instead of the move constructor) leaves a stale
// address behind, and so does reading storage in which no constructor ever ran. No destructor, hence no ledger entry.
template <std::size_t N>
struct __attribute__((packed)) SelfPtr
{
    static_assert(N >= 12);
    std::uint32_t id;
    const void* self;
    unsigned char pad[N - 12];
    explicit SelfPtr(std::uint32_t v) noexcept : id(v), self(this) { fill(); }
    SelfPtr(const SelfPtr& o) noexcept : id(o.id), self(this) { fill(); }
    SelfPtr& operator=(const SelfPtr& o) noexcept
    {
        id = o.id;
        return *this;
    }
    ~SelfPtr() = default;
    void fill() noexcept
    {
        for (std::size_t i = 0; i < sizeof(pad); ++i) pad[i] = static_cast<unsigned char>(id * 7 + i);
    }
    bool at_home() const noexcept
    {
        const void* p;
        std::memcpy(&p, reinterpret_cast<const unsigned char*>(this) + offsetof_self(), sizeof(p));
        return p == static_cast<const void*>(this);
    }
    static constexpr std::size_t offsetof_self() noexcept { return sizeof(std::uint32_t); }
    friend bool operator==(const SelfPtr& a, const SelfPtr& b) noexcept { return a.id == b.id; }
    friend bool operator!=(const SelfPtr& a, const SelfPtr& b) noexcept { return a.id != b.id; }
    friend bool operator<(const SelfPtr& a, const SelfPtr& b) noexcept { return a.id < b.id; }
};
static_assert(std::is_trivially_destructible_v<SelfPtr<12>> && !std::is_trivially_copy_constructible_v<SelfPtr<12>> &&
              !std::is_trivially_move_constructible_v<SelfPtr<12>> && alignof(SelfPtr<12>) == 1 && sizeof(SelfPtr<13>) == 13);

template <std::size_t N>
struct Codec<SelfPtr<N>>
{
    using T = SelfPtr<N>;
    static constexpr bool TRACKED = false;
    static constexpr bool MOVE_ONLY = false;
    static constexpr bool IDENTITY_EQ = false;
    static constexpr bool ALLOCATES = false;
    static constexpr MovedState MOVED = MS_SAME;
    static constexpr std::uint64_t canon(std::uint64_t v) noexcept { return v & 0xFFFFFFFFu; }
    static T make(std::uint64_t c) noexcept { return T(static_cast<std::uint32_t>(c)); }
    static std::uint64_t read(const T& x) noexcept
    {
        if (!x.at_home())
        {
            env_violation("C06", "object-not-where-it-was-constructed",
                          "a non-trivially-copyable object was relocated byte-wise or is read from storage no constructor ran in");
            return V_UNSPEC - 5;
        }
        std::uint32_t id;
        std::memcpy(&id, &x, sizeof(id));
        return id;
    }
    static void assign(T& dst, std::uint64_t c) noexcept { dst = make(c); }
};

// Trivially MOVE constructible and trivially destructible, but with a user-provided copy constructor (a type whose
// copies are counted / deep, whose moves are shallow). A list of such types may be relocated byte-wise, but a COPY of
// the vector has to run the copy constructor of every object.
inline std::uint64_t g_copycounted_copies = 0;
template <std::size_t N>
struct __attribute__((packed)) CopyCounted
{
    static_assert(N >= 5);
    std::uint32_t id;
    unsigned char pad[N - 4];
    explicit CopyCounted(std::uint32_t v) noexcept : id(v) { std::memset(pad, 0x3C, sizeof(pad)); }
    CopyCounted(const CopyCounted& o) noexcept : id(o.id)
    {
        std::memset(pad, 0x3C, sizeof(pad));
        ++g_copycounted_copies;
    }
    CopyCounted(CopyCounted&&) = default;
    CopyCounted& operator=(const CopyCounted& o) noexcept
    {
        id = o.id;
        return *this;
    }
    CopyCounted& operator=(CopyCounted&&) = default;
    ~CopyCounted() = default;
    friend bool operator==(const CopyCounted& a, const CopyCounted& b) noexcept { return a.id == b.id; }
    friend bool operator!=(const CopyCounted& a, const CopyCounted& b) noexcept { return a.id != b.id; }
    friend bool operator<(const CopyCounted& a, const CopyCounted& b) noexcept { return a.id < b.id; }
};
static_assert(std::is_trivially_move_constructible_v<CopyCounted<12>> && std::is_trivially_destructible_v<CopyCounted<12>> &&
              !std::is_trivially_copy_constructible_v<CopyCounted<12>> && !std::is_trivially_copyable_v<CopyCounted<12>>);
template <class T>
struct IsCopyCounted : std::false_type
{
};
template <std::size_t N>
struct IsCopyCounted<CopyCounted<N>> : std::true_type
{
};

template <std::size_t N>
struct Codec<CopyCounted<N>>
{
    using T = CopyCounted<N>;
    static constexpr bool TRACKED = false;
    static constexpr bool MOVE_ONLY = false;
    static constexpr bool IDENTITY_EQ = false;
    static constexpr bool ALLOCATES = false;
    static constexpr MovedState MOVED = MS_SAME;
    static constexpr std::uint64_t canon(std::uint64_t v) noexcept { return v & 0xFFFFFFFFu; }
    static T make(std::uint64_t c) noexcept { return T(static_cast<std::uint32_t>(c)); }
    static std::uint64_t read(const T& x) noexcept
    {
        std::uint32_t id;
        std::memcpy(&id, &x, sizeof(id));
        return id;
    }
    static void assign(T& dst, std::uint64_t c) noexcept { dst = make(c); }
};

// Trivially copy/move CONSTRUCTIBLE and trivially destructible, but with a user-provided assignment that is not a byte
// copy: `home` is given at construction and travels with the object when it is relocated (construction), while
// assignment and std::swap transfer `id` only. No ADL swap. Exchanging two such objects byte-wise (instead of through
// the type's own assignment / std::swap) moves `home`, which a std::vector of tuples would never do.
inline std::uint32_t g_sticky_counter = 0;
template <std::size_t N>
struct __attribute__((packed)) Sticky
{
    static_assert(N >= 8);
    std::uint32_t id;
    std::uint32_t home;
    unsigned char pad[N - 8];
    explicit Sticky(std::uint32_t v) noexcept : id(v), home(++g_sticky_counter) { std::memset(pad, 0x4D, sizeof(pad)); }
    Sticky(const Sticky&) = default;
    Sticky(Sticky&&) = default;
    Sticky& operator=(const Sticky& o) noexcept
    {
        id = o.id;
        return *this;
    }
    ~Sticky() = default;
    friend bool operator==(const Sticky& a, const Sticky& b) noexcept { return a.id == b.id; }
    friend bool operator!=(const Sticky& a, const Sticky& b) noexcept { return a.id != b.id; }
    friend bool operator<(const Sticky& a, const Sticky& b) noexcept { return a.id < b.id; }
};
static_assert(std::is_trivially_copy_constructible_v<Sticky<9>> && std::is_trivially_move_constructible_v<Sticky<9>> &&
              std::is_trivially_destructible_v<Sticky<9>> && !std::is_trivially_move_assignable_v<Sticky<9>> &&
              !std::is_trivially_copyable_v<Sticky<9>>);
template <class T>
struct IsSticky : std::false_type
{
};
template <std::size_t N>
struct IsSticky<Sticky<N>> : std::true_type
{
};

template <std::size_t N>
struct Codec<Sticky<N>>
{
    using T = Sticky<N>;
    static constexpr bool TRACKED = false;
    static constexpr bool MOVE_ONLY = false;
    static constexpr bool IDENTITY_EQ = false;
    static constexpr bool ALLOCATES = false;
    static constexpr MovedState MOVED = MS_SAME;
    static constexpr std::uint64_t canon(std::uint64_t v) noexcept { return v & 0xFFFFFFFFu; }
    static T make(std::uint64_t c) noexcept { return T(static_cast<std::uint32_t>(c)); }
    static std::uint64_t read(const T& x) noexcept
    {
        std::uint32_t id;
        std::memcpy(&id, &x, sizeof(id));
        return id;
    }
    static void assign(T& dst, std::uint64_t c) noexcept { dst = make(c); }
};

// std::pair<u32,u32>: trivially copy/move *constructible* and trivially destructible but NOT trivially copyable
// (user-provided assignment) -- the type class a wrong trait choice in the relocation paths mishandles
using Pair32 = std::pair<std::uint32_t, std::uint32_t>;
static_assert(std::is_trivially_copy_constructible_v<Pair32> && !std::is_trivially_copyable_v<Pair32>);
template <>
struct Codec<Pair32>
{
    using T = Pair32;
    static constexpr bool TRACKED = false;
    static constexpr bool MOVE_ONLY = false;
    static constexpr bool IDENTITY_EQ = false;
    static constexpr bool ALLOCATES = false;
    static constexpr MovedState MOVED = MS_SAME;
    static constexpr std::uint64_t canon(std::uint64_t v) noexcept { return v & 0xFFFFFFFFu; }
    static T make(std::uint64_t c) noexcept
    {
        return T(static_cast<std::uint32_t>(c), static_cast<std::uint32_t>(c) ^ 0x5A5AA5A5u);
    }
    static std::uint64_t read(const T& x) noexcept
    {
        T tmp;
        std::memcpy(static_cast<void*>(&tmp), static_cast<const void*>(&x), sizeof(T));
        if ((tmp.first ^ 0x5A5AA5A5u) != tmp.second) return V_UNSPEC - 4;
        return tmp.first;
    }
    static void assign(T& dst, std::uint64_t c) noexcept { dst = make(c); }
};

template <>
struct Codec<std::string>
{
    using T = std::string;
    static constexpr bool TRACKED = false;
    static constexpr bool MOVE_ONLY = false;
    static constexpr bool IDENTITY_EQ = false;
    static constexpr bool ALLOCATES = true;
    static constexpr MovedState MOVED = MS_UNSPEC;
    static constexpr std::uint64_t canon(std::uint64_t v) noexcept { return v % 999983ull; }
    static T make(std::uint64_t c)
    {
        // zero padded so that string order == numeric order; every third value defeats the SSO
        char buf[16];
        std::snprintf(buf, sizeof(buf), "%06llu", static_cast<unsigned long long>(c));
        T s(buf);
        if (c % 3 == 0) s.append(26, '#');
        return s;
    }
    static std::uint64_t read(const T& x)
    {
        if (x.size() < 6) return V_UNSPEC - 3;
        std::uint64_t v = 0;
        for (int i = 0; i < 6; ++i)
        {
            if (x[i] < '0' || x[i] > '9') return V_UNSPEC - 3;
            v = v * 10 + static_cast<std::uint64_t>(x[i] - '0');
        }
        return v;
    }
    static void assign(T& dst, std::uint64_t c) { dst = make(c); }
};

template <>
struct Codec<std::unique_ptr<int>>
{
    using T = std::unique_ptr<int>;
    static constexpr bool TRACKED = false;
    static constexpr bool MOVE_ONLY = true;
    static constexpr bool IDENTITY_EQ = true;
    static constexpr bool ALLOCATES = true;
    static constexpr MovedState MOVED = MS_MOVED;
    static constexpr std::uint64_t canon(std::uint64_t v) noexcept { return v % 1000003ull; }
    static T make(std::uint64_t c) { return std::make_unique<int>(static_cast<int>(c)); }
    static std::uint64_t read(const T& x) { return x ? static_cast<std::uint64_t>(*x) : V_MOVED; }
    static void assign(T& dst, std::uint64_t c) { dst = make(c); }
};

template <class T>
inline constexpr std::uint64_t after_move(std::uint64_t v) noexcept
{
    return Codec<T>::MOVED == MS_SAME ? v : (Codec<T>::MOVED == MS_MOVED ? V_MOVED : V_UNSPEC);
}
}  // namespace sim
