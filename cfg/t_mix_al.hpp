#pragma once
#include <cstdint>
#include <string>
#include <memory>
#include <cntgs/contiguous.hpp>
#include "../sim/alloc.hpp"
#include "../sim/values.hpp"
#define CFG_NAME "t_mix_al"
#define CFG_PARAMS cntgs::FixedSize<cntgs::AlignAs<float,16>>, std::uint32_t, cntgs::AlignAs<std::uint8_t,8>, cntgs::VaryingSize<cntgs::AlignAs<std::uint16_t,8>>, char
#define CFG_TRAITS sim::TrAE
