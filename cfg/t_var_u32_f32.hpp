#pragma once
#include <cstdint>
#include <string>
#include <memory>
#include <cntgs/contiguous.hpp>
#include "../sim/alloc.hpp"
#include "../sim/values.hpp"
#define CFG_NAME "t_var_u32_f32"
#define CFG_PARAMS std::uint32_t, cntgs::VaryingSize<float>
#define CFG_TRAITS sim::TrNone
